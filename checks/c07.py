"""C07 — an idempotency key takes effect at most once."""
from checks.enginelib import *

META = {
    "text": 'Lean: generic component model Guard instantiated for idempotency keys; theorems key_at_most_once (a non-empty key labels at most one entry, persisted or not, in every accepted event sequence incl. restarts), same_outcome. Tie: trace validation (reservation, store lookup, commit, release only after persistence); oracle: effects per key.',
    "note": "Trusted: Lean kernel; event extraction; the lookup result is checked against the model's durable log at every read.",
    "technique": 'Lean 4 proof (inductive invariant of the Guard component) + trace validation + per-key oracle',
    "design_ref": '5 (C07)',
}


def run(ctx):
    run_check(ctx, 'C07', ["guard-ik", "ack"], lambda scn, run: sum(1 for q in scn["requests"] if q.get("ik")) >= 2, 'at least two requests share an idempotency key')
