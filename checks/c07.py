"""C07 — an idempotency key takes effect at most once."""
from checks.enginelib import *
from checks import stresslib

META = {
    "text": 'Lean: generic component model Guard (reservation, store lookup, commit, release only after persistence) instantiated for idempotency keys; inductive invariant Guard.step_inv / init_inv (Lemmas/EngineGuard.lean); theorems key_at_most_once (a non-empty key labels at most one entry, persisted or queued, in every accepted event sequence incl. store failures and restarts), key_designates_one_entry, key_survives_restart (a crash keeps persisted entries, every later lookup of the key is answered found), retry_gets_the_entry (a lookup answered found designates the one persisted entry with the key and changes nothing), effect_needs_miss (an entry with a key is only committed under the reservation after a lookup that missed). Tie: trace validation of the real Commander against the component (guard-ik) and the Ack component; oracle: effects per key and equal outcomes of the successful duplicates. Stage 2, the reservation primitive (Referencer.take, no scheduling point inside): area engstress — goroutines released together by a spinning barrier call the real take with one key (exactly one may win) and the real Commander with one idempotency key (one effect, every accepted request answered the recorded transaction); a bounded search, rates and processors in coverage.stress.',
    "note": "Trusted: Lean kernel; event extraction; the lookup result is checked against the model's durable log at every read.",
    "technique": 'Lean 4 proof (inductive invariant of the Guard component) + trace validation + per-key oracle + regenerated commander skeleton (extract/commander -> Generated/Commander.lean on every run): well-formedness of every control path by decide, refinement of this component by the interpreted skeleton under every schedule, observed runs re-executed in the skeleton system',
    "design_ref": '5 (C07)',
}


def run(ctx):
    area = stresslib.replay_area(ctx)
    if area == stresslib.AREA:       # a replay of the stress stage: the bounded search alone
        ctx.l1()
        stresslib.run_stress(ctx, 'C07')
        return
    run_check(ctx, 'C07', ["guard-ik", "ack"], lambda scn, run: sum(1 for q in scn["requests"] if q.get("ik")) >= 2, 'at least two requests share an idempotency key')
    if area is not None:
        return
    # stage 2: the reservation primitive (no scheduling point inside) under truly simultaneous goroutines
    stresslib.run_stress(ctx, 'C07')
