"""Shared by the engine properties (C02 C05 C06 C07 C10 C11 C14 C16): scenario runs under the deterministic scheduler
and the property oracles, each evaluated on what the real Commander did (independent of the Lean model)."""
import collections
import subprocess
from vlib.common import *
from vlib import regen

DRIVER_SKEL = os.path.join(LEAN, ".lake", "build", "bin", "driver_skel")

TRUSTED = [
    "Lean 4.33 kernel; axioms allowed: propext, Classical.choice, Quot.sound",
    "Model.Engine is a hand-written transition system of the commander protocol, tied to the real Commander by trace validation under a deterministic scheduler",
    "the scheduler assumes every relevant interleaving point carries a verifhook.Yield or is a Store/Locker/Monitor call",
    "the account locker behind the commander in these runs is scheduler-native and implements the contract proved for DefaultLocker under C15",
    "harness store: durable log + views derived by a fold (the SQL projection is C04's business)",
    "events: the real bus.NewLedgerMonitor publishes into a recording message.Publisher; each message is decoded (generic JSON) back into the event "
    "record the oracles and the Events machine consume; the request a message belongs to is the actor bound to the message's context",
    "extract/commander (go/ast translator of internal/engine/command into Generated/Commander.lean): its reading of the Go control flow, its "
    "table of protocol actions, the rule that a call mentioning none of the commander's resources cannot touch the protocol, and the "
    "recorded bodies of the primitives (Referencer.take/release, keepUntilTerminated, terminated, Batcher.Append); tied to the running code by "
    "checking that every observed per-request event sequence is a control path of the skeleton",
]


def run_engine(ctx, n, extra_inputs=()):
    if not (ctx.ensure_driver() and ctx.ensure_harness()):
        return None
    return pipeline(ctx, "engine", n, model=False)


def tx_logs(durable):
    return [l for l in durable if l["type"] in ("NEW_TRANSACTION", "REVERTED_TRANSACTION")]


def ptuple(ps):
    return tuple(tuple(p) for p in ps)


def producers(run):
    """persisted entry (by its hash) -> the request that committed it, from the scheduler's observation of the commander's last log
    after each turn; independent of what the entry says about itself (its recorded key, its content)"""
    by_hash = {}
    for t in run["trace"]:
        if isinstance(t, dict) and "committed" in t and t["committed"].get("hash"):
            by_hash[t["committed"]["hash"]] = t["a"]
    return {l["id"]: by_hash[l["hash"]] for l in run["durable"] if l.get("hash") in by_hash}


# ---------------------------------------------------------------- C05

def oracle_c05(scn, run):
    v = []
    d = run["durable"]
    ids = [int(l["id"]) for l in d]
    if ids != list(range(len(d))):
        v.append(({"class": "log-ids", "restart": bool(run["crashed"]) or any("crash" in t for t in run["trace"] if isinstance(t, dict))},
                  "persisted log ids are %s" % ids))
    bad = [l["id"] for l in d if not l["hash_ok"]]
    if bad:
        v.append(({"class": "hash-chain"}, "entries %s do not carry the digest of (previous hash, own content)" % bad))
    v += oracle_stored(scn, run, fields=False)   # C05: the stored chain verifies; which field of a row differs is C13's business
    tids = [int(l["tx"]["id"]) for l in tx_logs(d)]
    if tids != list(range(len(tids))):
        dry_ok = any(scn["requests"][r["req"]].get("dry") and r["ok"] for r in run["responses"])
        v.append(({"class": "tx-ids", "after_preview": dry_ok}, "transaction ids in log order are %s" % tids))
    # a graceful stop (Commander.Close) is the signal "this commander writes nothing more": it may only come back once the InsertLogs
    # that was running when it was asked has returned (a commander initialised from the store at that moment would otherwise continue
    # from the log BEFORE that batch)
    cl = run.get("close")
    if cl and cl.get("returned") == "while-insert-in-flight":
        v.append(({"class": "close-returned-while-insert-in-flight"},
                  "Commander.Close, called at step %s while a batch of %s entr%s was inside InsertLogs, returned before that call did" % (
                      cl.get("step"), cl.get("batch_in_store"), "y" if cl.get("batch_in_store") == 1 else "ies")))
    return v


def oracle_stored(scn, run, fields=True):
    """every durable entry is written by the REAL ledgerstore.Store.InsertLogs (the call the batcher's worker makes, on a table that records
    the COPY arguments); the row, read back as a SELECT hands it over (Logs.ToCore), must be the entry that was handed in — id, type, date,
    idempotency key, payload, hash — and re-hash to the stored hash over the previous row read back the same way"""
    v = []
    for l in run["durable"]:
        if l.get("stored_ok") is not False:
            continue
        sr = l.get("stored") or {}
        if "error" in sr:
            v.append(({"class": "store-insert-error"}, "entry %s: InsertLogs did not write it: %s" % (l["id"], sr["error"])))
            continue
        if "panic" in sr:
            v.append(({"class": "store-decode-panic"}, "entry %s: Logs.ToCore panics on the stored row: %s" % (l["id"], sr["panic"])))
            continue
        if "written" in sr and fields:
            for f in ("id", "type", "date", "ik", "data", "hash"):
                a, b = sr["written"].get(f), sr["row"].get(f)
                if canon(a) != canon(b):
                    name = {"ik": "idempotency-key", "data": "payload"}.get(f, f)
                    if f == "ik":
                        what = "handed to InsertLogs with an idempotency key of %d characters, stored with one of %d characters" % (len(a or ""), len(b or ""))
                    else:
                        what = "%s handed to InsertLogs %s, stored %s" % (name, canon(a)[:120], canon(b)[:120])
                    v.append(({"class": "stored-row-differs", "field": name},
                              "entry %s (%s): the row written to the store, read back through Logs.ToCore, is not the entry that was written: %s" % (l["id"], l["type"], what)))
        if "rehash" in sr or "written" not in sr:
            v.append(({"class": "stored-entry-does-not-verify"},
                      "entry %s (%s): the row written to the store does not read back to an entry whose recomputed hash (%s) is the stored one (%s)"
                      % (l["id"], l["type"], sr.get("rehash"), sr.get("hash"))))
    return v


# ---------------------------------------------------------------- C06

def find_tx_log(durable, txid, upto=None):
    for l in (durable if upto is None else durable[:upto]):
        if l["type"] in ("NEW_TRANSACTION", "REVERTED_TRANSACTION") and l["tx"]["id"] == txid:
            return l
    return None


def oracle_c06(scn, run):
    v = []
    d = run["durable"]
    reqs = scn["requests"]
    nf = run["n_funding"]
    effects_min = 0
    seen_ik = set()
    for r in run["responses"]:
        q = reqs[r["req"]]
        if not r["ok"] or q.get("dry"):
            continue
        if q["kind"] in ("create", "revert"):
            l = find_tx_log(d, r["tx"]["id"], r["durable"])
            if l is None:
                late = find_tx_log(d, r["tx"]["id"])
                v.append(({"class": "ack-before-durable" if late else "ack-without-entry", "kind": q["kind"]},
                          "request %d was acknowledged with tx %s but %s" % (r["req"], r["tx"]["id"], "its entry was persisted only later" if late else "no entry exists")))
            elif ptuple(l["tx"]["postings"]) != ptuple(r["tx"]["postings"]) or l["tx"]["reference"] != r["tx"]["reference"]:
                v.append(({"class": "content-differs", "kind": q["kind"]}, "request %d got back a transaction that differs from its log entry" % r["req"]))
        if q.get("ik"):
            if q["ik"] not in seen_ik:
                seen_ik.add(q["ik"])
                effects_min += 1
        else:
            effects_min += 1
    # request by request, by WHO wrote (the scheduler's observation of the commander's last log after each turn): a success stands for
    # exactly one entry written by that request — or, with an idempotency key, for the entry recorded under the key —; an error for none
    by_hash = {t["committed"]["hash"]: t["a"] for t in run["trace"] if isinstance(t, dict) and "committed" in t and t["committed"].get("hash")}
    wrote = collections.Counter(by_hash[l["hash"]] for l in d if l.get("hash") in by_hash)   # per persisted ENTRY (ids may repeat in a broken log)
    for r in run["responses"]:
        q = reqs[r["req"]]
        if q.get("dry"):
            continue
        n_own = wrote.get(r["req"], 0)
        what = q["kind"] + ("-empty" if q.get("empty") else "")
        if r["ok"]:
            recorded = bool(q.get("ik")) and any(l["ik"] == q["ik"] for l in d[:r["durable"]])
            if n_own == 0 and not recorded:
                v.append(({"class": "success-without-entry", "kind": what, "keyed": bool(q.get("ik"))},
                          "request %d (%s%s) reported success; no persisted entry was written by it%s" % (
                              r["req"], what, ", key %s" % show_key(q["ik"]) if q.get("ik") else "",
                              " and none is recorded under its key" if q.get("ik") else "")))
            elif n_own > 1:
                v.append(({"class": "several-entries-for-one-success", "kind": what}, "request %d (%s) reported success; %d persisted entries were written by it" % (r["req"], what, n_own)))
        elif n_own > 0:
            v.append(({"class": "entry-after-error", "kind": what}, "request %d (%s) reported the error %r; %d persisted entr%s written by it" % (
                r["req"], what, r["err"][:60], n_own, "y was" if n_own == 1 else "ies were")))
    produced = len(d) - nf
    maybe = len(run["crashed"])  # requests in flight at a crash may or may not have persisted
    n_ik_extra = sum(1 for r in run["responses"] if r["ok"] and not reqs[r["req"]].get("dry") and reqs[r["req"]].get("ik")) - len(seen_ik)
    if produced < effects_min:
        v.append(({"class": "missing-entry"}, "%d successful writes but only %d entries" % (effects_min, produced)))
    if produced > effects_min + maybe + n_ik_extra:
        v.append(({"class": "entry-without-success", "crash": bool(maybe)},
                  "%d entries for %d successful writes (+%d in flight at a crash)" % (produced, effects_min, maybe)))
    return v


# ---------------------------------------------------------------- C07

def show_key(ik):
    return repr(ik) if len(ik) <= 40 else "%r… (%d bytes)" % (ik[:24], len(ik.encode()))


def oracle_c07(scn, run):
    v = []
    d = run["durable"][run["n_funding"]:]
    reqs = scn["requests"]
    by_ik = collections.defaultdict(list)
    for i, q in enumerate(reqs):
        if q.get("ik") and not q.get("dry"):
            by_ik[q["ik"]].append(i)
    prod = producers(run)
    for ik, members in by_ik.items():
        n_logs = sum(1 for l in d if l["ik"] == ik)
        # effects of metadata writes are recognised by their content (their log may not carry the key)
        by_content = set()     # each entry is one effect, however many requests of the group it matches
        for i in members:
            q = reqs[i]
            if q["kind"] == "setmeta":
                by_content |= {l["id"] for l in d if l["type"] == "SET_METADATA" and l["ik"] != ik and l["metadata"].get(q["key"]) == q["val"]}
        eff = n_logs + len(by_content)
        kinds = sorted({reqs[i]["kind"] for i in members})
        # effects counted by WHO wrote: persisted entries committed by requests carrying this key (whatever key the entry records)
        eff = max(eff, sum(1 for a in prod.values() if a in members))
        if eff > 1:
            v.append(({"class": "took-effect-twice", "kinds": ",".join(kinds)}, "idempotency key %s took effect %d times" % (show_key(ik), eff)))
        txs = {r["tx"]["id"] for r in run["responses"] if r["ok"] and r["req"] in members and r["tx"]}
        if len(txs) > 1:
            v.append(({"class": "different-outcomes", "kinds": ",".join(kinds)}, "successful writes with key %s returned transactions %s" % (show_key(ik), sorted(txs))))
    return v


# ---------------------------------------------------------------- C11

def oracle_c11(scn, run):
    v = []
    refs = collections.Counter(l["tx"]["reference"] for l in tx_logs(run["durable"]) if l["tx"]["reference"])
    for ref, n in refs.items():
        if n > 1:
            v.append(({"class": "reference-twice"}, "reference %r is carried by %d committed transactions" % (ref, n)))
    reqs, d = scn["requests"], run["durable"]
    prod = producers(run)
    # the reference that is committed is the reference that was submitted (and checked), byte for byte: the entry a request wrote,
    # and the transaction it was answered
    for l in tx_logs(d):
        a = prod.get(l["id"])
        if l["funding"] or a is None or not (0 <= a < len(reqs)) or reqs[a]["kind"] != "create":
            continue
        if l["tx"]["reference"] != (reqs[a].get("ref") or ""):
            v.append(({"class": "reference-altered", "where": "entry"},
                      "request %d submitted the reference %r; the transaction it committed (entry %s) carries %r" % (a, reqs[a].get("ref") or "", l["id"], l["tx"]["reference"])))
    for r in run["responses"]:
        q = reqs[r["req"]]
        if q["kind"] != "create" or not r["ok"] or not r["tx"]:
            continue
        if not q.get("ik") and r["tx"]["reference"] != (q.get("ref") or ""):
            v.append(({"class": "reference-altered", "where": "answer"},
                      "request %d submitted the reference %r and was answered a transaction carrying %r" % (r["req"], q.get("ref") or "", r["tx"]["reference"])))
        # a request whose reference equals, as submitted, the reference of a transaction persisted before it was answered — another
        # one than its own, not the one recorded under its idempotency key — is refused
        own = {lid for lid, a in prod.items() if a == r["req"]}
        # (a request answered from the entry recorded under its idempotency key committed nothing: it is not an acceptance of its reference)
        if q.get("ref") and not q.get("dry") and own:
            holders = [l for l in tx_logs(d[:r["durable"]]) if l["tx"]["reference"] == q["ref"] and l["id"] not in own and l["tx"]["id"] != r["tx"]["id"]]
            if holders:
                v.append(({"class": "reference-twice", "how": "accepted-although-committed"},
                          "request %d with the reference %r was accepted (transaction %s) although transaction %s, persisted before, carries that reference" % (
                              r["req"], q["ref"], r["tx"]["id"], holders[0]["tx"]["id"])))
    return v


# ---------------------------------------------------------------- C10

def oracle_c10(scn, run):
    v = []
    d = run["durable"]
    rev = collections.defaultdict(list)
    for l in d:
        if l["type"] == "REVERTED_TRANSACTION":
            rev[l["reverted"]].append(l)
    for tid, ls in rev.items():
        if len(ls) > 1:
            v.append(({"class": "reverted-twice"}, "transaction %s is reverted by %d entries" % (tid, len(ls))))
        orig = find_tx_log(d, tid)
        if orig is None:
            v.append(({"class": "revert-of-nothing"}, "a revert targets transaction %s which does not exist" % tid))
            continue
        want = tuple((p[1], p[0], p[2], p[3]) for p in reversed(orig["tx"]["postings"]))
        for l in ls:
            if ptuple(l["tx"]["postings"]) != want:
                v.append(({"class": "not-the-reverse"}, "the revert of %s does not carry the reversed postings" % tid))
    # an unforced revert is refused rather than overdrawing an account: walk the log, and at every revert entry committed by a
    # request WITHOUT `force` (the request that wrote it; if unknown: no revert request of that transaction was forced) no
    # account other than world may go below zero at any posting
    reqs = scn["requests"]
    prod = producers(run)
    bal = collections.defaultdict(int)
    for l in d:
        if l["type"] not in ("NEW_TRANSACTION", "REVERTED_TRANSACTION"):
            continue
        unforced = False
        if l["type"] == "REVERTED_TRANSACTION" and not l["funding"]:
            a = prod.get(l["id"])
            if a is not None and a < len(reqs) and reqs[a]["kind"] == "revert":
                unforced = not reqs[a].get("force")
            else:
                cands = [q for q in reqs if q["kind"] == "revert" and str(q.get("target")) == l["reverted"]]
                unforced = bool(cands) and not any(q.get("force") for q in cands)
        for src, dst, amt, asset in l["tx"]["postings"]:
            amt = int(amt)
            if unforced and src != "world" and amt > 0 and bal[(src, asset)] - amt < 0:
                v.append(({"class": "unforced-revert-overdraws"},
                          "entry %s, the unforced revert of transaction %s, takes %d %s from %s which holds %d at that point" % (
                              l["id"], l["reverted"], amt, asset, src, bal[(src, asset)])))
            bal[(src, asset)] -= amt
            bal[(dst, asset)] += amt
    return v


# ---------------------------------------------------------------- C02 (floor at the log position)

def expected_postings(q):
    """(src, dst, amount) of the postings a `create` of the generator commits, None for the multi-send form"""
    if q.get("sends"):
        return None
    if q.get("pass"):
        return [("world", q["src"], str(q["amount"])), (q["src"], q["dst"], str(q["pass"]))]
    ps = [(q["src"], q["dst"], str(q["amount"]))]
    if q.get("via") in ("alias", "aliasmeta"):   # the source is named a second time, by a variable that is only a destination
        ps.append(("world", q["src"], "1"))
    return ps


def locks_at_commit(run):
    """hash of a committed entry -> (actor, read set, write set) the actor held when it committed it (None: it held no lock), read off
    the trace: the lock / unlock entries of the locker the commander was given"""
    held, out = {}, {}
    for t in run["trace"]:
        if not isinstance(t, dict):
            continue
        if "crash" in t:
            held = {}
        elif "lock" in t:
            held[t["a"]] = (set(t["lock"]["r"]), set(t["lock"]["w"]))
        elif t.get("unlock"):
            held.pop(t["a"], None)
        elif "committed" in t and t["committed"].get("hash"):
            out[t["committed"]["hash"]] = (t["a"], held.get(t["a"]))
    return out


def oracle_c02(scn, run):
    v = []
    reqs = scn["requests"]
    R = collections.defaultdict(int)
    prod = producers(run)
    at_commit = locks_at_commit(run)
    for l in run["durable"]:
        if l["type"] not in ("NEW_TRANSACTION", "REVERTED_TRANSACTION"):
            continue
        ps = l["tx"]["postings"]
        grant = None
        via = "?"
        if not l["funding"]:
            a = prod.get(l["id"])
            by = reqs[a] if a is not None and 0 <= a < len(reqs) else None
            if l["type"] == "REVERTED_TRANSACTION":
                cands = [q for q in reqs if q["kind"] == "revert" and str(q.get("target")) == l["reverted"]]
                grant = None if any(q.get("force") for q in cands) else 0
                via = "revert"
                if by is not None and by["kind"] == "revert":     # the request that wrote it: what IT declared
                    grant = None if by.get("force") else 0
            else:
                cands = [q for q in reqs if q["kind"] == "create" and expected_postings(q) == [tuple(p[:3]) for p in ps]]
                if cands:
                    grant = max((q.get("over") or 0) for q in cands)
                    via = "+".join(sorted({q["via"] for q in cands}))
                if by is not None and by["kind"] == "create" and not by.get("sends"):
                    # the request that WROTE the entry: what IT declared — also when the postings are not the ones its text spells
                    # out (a source looked up from metadata that was rewritten meanwhile)
                    grant = by.get("over") or 0
                    via = by["via"] + ("" if any(q is by for q in cands) else "-switched")
            # lock coverage, on the log: every account an entry takes funds from was write-locked by the request that committed it,
            # at that moment (the lock the commander asked its locker for; world is never locked)
            if l.get("hash") in at_commit:
                a2, hl = at_commit[l["hash"]]
                for src in sorted({p[0] for p in ps if p[0] != "world"}):
                    if hl is None or src not in hl[1]:
                        v.append(({"class": "source-not-write-locked", "via": via, "kind": "revert" if l["type"] == "REVERTED_TRANSACTION" else "create"},
                                  "log %s, committed by request %s, takes funds from %s; the request held %s at that moment" % (
                                      l["id"], a2, src, "no account lock" if hl is None else "write locks on %s only" % sorted(hl[1]))))
        for n, (src, dst, amt, asset) in enumerate(ps):
            amt = int(amt)
            if not l["funding"] and src != "world" and grant is not None and amt > 0 and R[(src, asset)] - amt < -grant:
                v.append(({"class": "spent-twice", "via": via},
                          "log %s takes %d from %s which holds %d at that position (overdraft %d)" % (l["id"], amt, src, R[(src, asset)], grant)))
            R[(src, asset)] -= amt
            R[(dst, asset)] += amt
    return v


# ---------------------------------------------------------------- C14 / C16

def match_event(e, durable):
    for l in durable:
        if e["type"] == "committed" and l["type"] == "NEW_TRANSACTION" and l["tx"]["id"] == e["tx"]["id"] and \
                ptuple(l["tx"]["postings"]) == ptuple(e["tx"]["postings"]) and l["tx"]["metadata"] == e["tx"]["metadata"]:
            return l
        if e["type"] == "reverted" and l["type"] == "REVERTED_TRANSACTION" and e["reverted"] and e["revert"] and \
                l["reverted"] == e["reverted"]["id"] and l["tx"]["id"] == e["revert"]["id"]:
            return l
        if e["type"] == "saved_meta" and l["type"] == "SET_METADATA" and l["target"] == e["target"] and l["metadata"] == e["metadata"] and \
                l["target_type"] == e["target_type"]:
            return l
        if e["type"] == "deleted_meta" and l["type"] == "DELETE_METADATA" and l["target"] == e["target"] and l["key"] == e["key"]:
            return l
    return None


def oracle_c16(scn, run):
    v = []
    d = run["durable"]
    n_dry_ok = sum(1 for r in run["responses"] if r["ok"] and scn["requests"][r["req"]].get("dry"))
    for e in run["events"]:
        l = match_event(e, d[:e["durable"]])
        if l is None:
            swapped = e["type"] == "reverted" and any(x["type"] == "REVERTED_TRANSACTION" and e["reverted"] and e["revert"] and
                                                       x["reverted"] == e["revert"]["id"] and x["tx"]["id"] == e["reverted"]["id"] for x in d)
            v.append(({"class": "event-without-entry" if not swapped else "revert-roles-swapped", "type": e["type"], "preview": n_dry_ok > 0 and not swapped},
                      "a %s event has no persisted entry with that content%s" % (e["type"], " (reverted/revert exchanged)" if swapped else "")))
    if not run["crashed"] and not any(isinstance(t, dict) and "crash" in t for t in run["trace"]):
        for l in d[run["n_funding"]:]:
            if not any(match_event(e, [l]) for e in run["events"]):
                v.append(({"class": "entry-without-event", "type": l["type"]}, "entry %s (%s) was never published" % (l["id"], l["type"])))
    # run["events"] is what reached the message.Publisher behind the real ledgerMonitor; run["events_iface"] what the commander asked
    # the monitor to announce: every announcement reaches the bus with the same content, and nothing else does
    def content(e):
        return canon({k: x for k, x in e.items() if k not in ("durable", "envelope_ok")})
    left = collections.Counter(content(e) for e in run["events"])
    for e in run.get("events_iface", []):
        if left[content(e)] > 0:
            left[content(e)] -= 1
        else:
            same_kind = any(x["type"] == e["type"] and x.get("a") == e.get("a") for x in run["events"])
            v.append(({"class": "event-dropped-by-monitor" if not same_kind else "event-altered-by-monitor", "type": e["type"]},
                      "request %s asked the monitor to announce a %s event (%s); %s" % (
                          e.get("a"), e["type"], (e.get("tx") or e.get("revert") or {}).get("id", e.get("target")),
                          "a different one reached the bus" if same_kind else "nothing reached the bus")))
    for c, n in left.items():
        if n > 0:
            v.append(({"class": "event-not-asked-for", "type": json.loads(c)["type"]}, "a message reached the bus that the commander never asked the monitor to publish"))
    for e in run["events"]:
        if e.get("envelope_ok") is False:
            v.append(({"class": "event-envelope", "type": e["type"]}, "a published message has the wrong topic / type / app / version / ledger or does not decode"))
    return v


def oracle_c14(scn, run):
    v = []
    reqs = scn["requests"]
    d = run["durable"][run["n_funding"]:]
    non_dry = sum(1 for q in reqs if not q.get("dry"))
    if len(d) > non_dry:
        v.append(({"class": "preview-persisted"}, "%d entries for %d real writes" % (len(d), non_dry)))
    # … and by WHO wrote: an entry committed by a request submitted as a preview (whatever the totals are)
    for lid, a in sorted(producers(run).items(), key=lambda x: int(x[0])):
        if a < len(reqs) and reqs[a].get("dry"):
            l = next(x for x in run["durable"] if x["id"] == lid)
            v.append(({"class": "preview-persisted", "kind": reqs[a]["kind"]}, "entry %s (%s) was written by request %d, a preview" % (lid, l["type"], a)))
            break
    # an event while only previews have run so far / more events than entries
    for e in run["events"]:
        if match_event(e, run["durable"][:e["durable"]]) is None and any(q.get("dry") for q in reqs):
            v.append(({"class": "preview-published", "type": e["type"]}, "a %s event was published for a write that persisted nothing" % e["type"]))
            break
    # … and by WHO published: a message that reached the bus from a request submitted as a preview (the entry it describes may
    # well exist: the one recorded for its idempotency key)
    for e in run["events"]:
        if e.get("a") is not None and e["a"] < len(reqs) and reqs[e["a"]].get("dry"):
            v.append(({"class": "preview-published", "type": e["type"], "keyed": bool(reqs[e["a"]].get("ik"))},
                      "request %d, a preview, published a %s event" % (e["a"], e["type"])))
            break
    # … and by count: without a crash every message comes from one successfully answered real write (each publishes once)
    if any(q.get("dry") for q in reqs) and not run["crashed"] and not restarted(run):
        ok_real = sum(1 for r in run["responses"] if r["ok"] and not reqs[r["req"]].get("dry"))
        if len(run["events"]) > ok_real:
            v.append(({"class": "preview-published", "what": "count"}, "%d messages on the bus for %d successful real writes" % (len(run["events"]), ok_real)))
    # a preview answers what the real write would answer: with a recorded idempotency key, that entry
    for r in run["responses"]:
        q = reqs[r["req"]]
        if q.get("dry") and q.get("ik") and r["ok"] and q["kind"] in ("create", "revert") and r["tx"]:
            rec = [l for l in run["durable"][:r["durable"]] if l["ik"] == q["ik"] and l.get("tx")]
            if rec and rec[0]["tx"]["id"] != r["tx"]["id"]:
                v.append(({"class": "preview-answer-differs", "what": "recorded-key"},
                          "a preview with the recorded key %r was answered transaction %s, the real write would answer %s" % (q["ik"], r["tx"]["id"], rec[0]["tx"]["id"])))
    # … whatever is in flight around it: the same scenario, same plan, with THIS preview submitted as the real write (run["twin_real"]);
    # the two runs are the same schedule up to the point where the request has decided its answer; compared when both answered
    for t in run.get("twin_real") or []:
        j = t["req"]
        mine = next((r for r in run["responses"] if r["req"] == j), None)
        theirs = next((r for r in t["responses"] if r["req"] == j), None)
        if mine is None or theirs is None:
            continue
        a, b = answer_class(mine), answer_class(theirs)
        if a != b:
            v.append(({"class": "preview-answer-differs", "what": "same-position", "kind": reqs[j]["kind"], "preview": a, "real": b},
                      "request %d (%s) submitted as a preview was answered %r; submitted as the real write in the same position of the same schedule it is answered %r" % (
                          j, reqs[j]["kind"], a, b)))
    tw = run.get("twin")
    if tw is not None:
        def row(l):  # what the entry says, metadata writes included (time stamps and hashes differ between two runs)
            return (l["type"], l["id"], (l.get("tx") or {}).get("id"), ptuple((l.get("tx") or {}).get("postings", [])),
                    l.get("target_type"), l.get("target"), canon(l.get("metadata")), l.get("key"), l.get("reverted"), l["ik"])
        a = [row(l) for l in run["durable"]]
        b = [row(l) for l in tw["durable"]]
        if a != b:
            v.append(({"class": "later-history-differs", "what": "log"}, "with the previews the log is %s, without them %s" % (a[run["n_funding"]:], b[run["n_funding"]:])))
        ra = [(r["ok"], r["err"], (r["tx"] or {}).get("id")) for r in run["responses"] if not reqs[r["req"]].get("dry")]
        rb = [(r["ok"], r["err"], (r["tx"] or {}).get("id")) for r in tw["responses"]]
        if ra != rb and a == b:
            v.append(({"class": "later-history-differs", "what": "responses"}, "responses of the real writes differ: %s vs %s" % (ra, rb)))
        ea = [canon({k: x for k, x in e.items() if k not in ("a", "durable")}) for e in run["events"]]
        eb = [canon({k: x for k, x in e.items() if k not in ("a", "durable")}) for e in tw["events"]]
        if ea != eb and a == b and ra == rb:
            v.append(({"class": "later-history-differs", "what": "events"}, "with the previews %d messages reached the bus, without them %d (or other ones)" % (len(ea), len(eb))))
    return v


def answer_class(r):
    return "accepted" if r["ok"] else r["err"].split(":")[0]


ORACLES = {"C13": oracle_stored, "C02": oracle_c02, "C05": oracle_c05, "C06": oracle_c06, "C07": oracle_c07, "C10": oracle_c10, "C11": oracle_c11,
           "C14": oracle_c14, "C16": oracle_c16}


def evaluate(ctx, prop, inputs, impl, nontrivial):
    """run the oracle of `prop` over every run of every scenario; returns (#runs, #distinct non-trivial scenarios)"""
    runs, nt, seen = 0, 0, set()
    for scn in inputs:
        out = impl.get(scn["id"], {})
        if "panic" in out or "error" in out:
            ctx.l2_broken.append({"stream": "engine-harness", "detail": str(out)[:500]})
            continue
        plans = out.get("plans") or scn["plans"]
        for k, run in enumerate(out["runs"]):
            runs += 1
            if run.get("watchdog"):
                # the scheduler's prediction of the protocol failed somewhere in this run (an arrival it waited for did not come); the run
                # was carried on and is judged below like every other one — and the wrong prediction is a broken correspondence
                ctx.l2_broken.append({"stream": "engine-scheduler-watchdog", "id": scn["id"], "plan": plans[k], "stalls": run.get("stalls"),
                                      "where": [t for t in run["trace"] if isinstance(t, dict) and "stall" in t][:3]})
                if run.get("skipped"):
                    continue
            for sig, what in ORACLES[prop](scn, run):
                one = dict(scn, plans=[plans[k]])
                ctx.violation(dict(sig, property=prop), what, {"area": "engine", "input": one, "observed": {k2: run[k2] for k2 in ("durable", "responses", "events", "crashed", "close") if k2 in run}})
            h = shash({"r": scn["requests"], "t": [t for t in run["trace"] if isinstance(t, dict) and "a" in t and "at" in t]})
            if h not in seen and nontrivial(scn, run):
                nt += 1
            seen.add(h)
    return runs, nt


def distribution(inputs, impl):
    kinds, outcomes, shape, hist = collections.Counter(), collections.Counter(), collections.Counter(), collections.Counter()
    for scn in inputs:
        for q in scn["requests"]:
            kinds[q["kind"] + ("-dry" if q.get("dry") else "") + ("-ik" if q.get("ik") else "") + ("-ref" if q.get("ref") else "")] += 1
        for run in impl.get(scn["id"], {}).get("runs", []):
            for r in run["responses"]:
                outcomes["ok" if r["ok"] else r["err"][:30]] += 1
            outcomes["crashed-in-flight"] += len(run["crashed"])
            shape["runs"] += 1
            pend, tx_over, any_over = [], False, False
            for t in run["trace"]:
                if not isinstance(t, dict):
                    continue
                if "committed" in t:
                    istx = t["committed"].get("tx") is not None
                    tx_over = tx_over or (istx and any(pend))
                    any_over = any_over or bool(pend)
                    pend.append(istx)
                elif t.get("at") == "gate":
                    pend = pend[t.get("batch", 1):]
                elif "crash" in t:
                    pend = []
                    shape["runs_with_a_restart"] += 1
            shape["runs_where_an_entry_was_committed_while_another_waited_for_the_store"] += 1 if any_over else 0
            shape["runs_where_a_transaction_was_committed_while_a_transaction_entry_waited_for_the_store"] += 1 if tx_over else 0
            for k in history_shapes(scn, run):
                hist[k] += 1
        for k in scenario_shapes(scn):
            hist["scenarios: " + k] += 1
    return {"requests": dict(kinds), "outcomes": dict(outcomes), "schedules": dict(shape), "history_shapes": dict(sorted(hist.items()))}


def scenario_shapes(scn):
    """static shapes of a scenario (what the generator put in)"""
    out = set()
    reqs = scn["requests"]
    keys = collections.Counter(q["ik"] for q in reqs if q.get("ik") and not q.get("dry"))
    for ik, n in keys.items():
        if n >= 2:
            out.add("one key on >= 2 real writes, key of %s bytes" % ("<= 35" if len(ik) < 36 else len(ik)))
    if any(q.get("pass") for q in reqs):
        out.add("chained transaction (world -> a n ; a -> b m, m < n)")
    if any(q.get("dry") and q["kind"] in ("setmeta", "delmeta") for q in reqs):
        out.add("preview of a metadata write" + (", twin run" if scn.get("twin") else ""))
    if scn.get("series") in (3, 4):
        out.add("series %d: %s" % (scn["series"], scn.get("name")))
    return out


def segments(run):
    """per request, where in the trace things happened: index of its resumption from each yield point (`at`), of its commit, of
    the store answer that made its entry durable (`persisted`), of its answer (`finish`); plus the indices of the restarts"""
    seg, pend, restarts = collections.defaultdict(dict), [], []
    for i, t in enumerate(run["trace"]):
        if not isinstance(t, dict):
            continue
        if "crash" in t:
            pend = []
            restarts.append(i)
        elif t.get("a") == -1 and t.get("at") == "gate":
            if t.get("ok", True):
                for a in pend[:t.get("batch", 1)]:
                    seg[a].setdefault("persisted", i)
            pend = pend[t.get("batch", 1):]
        elif "a" in t and t["a"] >= 0:
            a = t["a"]
            if "at" in t:
                seg[a].setdefault("at:" + t["at"], i)
            elif "committed" in t:
                seg[a].setdefault("commit", i)
                pend.append(a)
            elif t.get("finish"):
                seg[a]["finish"] = i
            elif "lock" in t:
                seg[a].setdefault("lock", i)
        elif "cancel" in t:
            seg[t["cancel"]]["cancelled"] = i
    return seg, restarts


def history_shapes(scn, run):
    """which of the multi-step shapes this RUN went through (decided on what happened, request by request, in answer order)"""
    out = set()
    reqs, d = scn["requests"], run["durable"]
    by_id = {l["tx"]["id"]: l for l in tx_logs(d)}
    answered = [t["a"] for t in run["trace"] if isinstance(t, dict) and t.get("finish")]
    pos = {a: k for k, a in enumerate(answered)}
    previewed = set()                    # keys a successfully answered preview carried, so far
    for r in sorted(run["responses"], key=lambda r: pos.get(r["req"], 1 << 30)):
        q = reqs[r["req"]]
        seen = d[:r["durable"]]          # what was persisted when the request was answered
        res = "accepted" if r["ok"] else r["err"].split(":")[0]
        if q["kind"] == "create" and q.get("ref"):
            holders = [l for l in tx_logs(seen) if l["tx"]["reference"] == q["ref"] and not (r["ok"] and r["tx"] and l["tx"]["id"] == r["tx"]["id"])]
            if any(x["type"] == "REVERTED_TRANSACTION" and x["reverted"] == h["tx"]["id"] for h in holders for x in seen):
                out.add("reference submitted again after its holder was reverted: " + res)
        if q["kind"] == "revert" and not q.get("dry"):
            earlier = [x for x in seen if x["type"] == "REVERTED_TRANSACTION" and x["reverted"] == str(q["target"]) and
                       not (r["ok"] and r["tx"] and x["tx"]["id"] == r["tx"]["id"])]
            if earlier and q.get("ik") and all(x["ik"] != q["ik"] for x in earlier):
                out.add("revert of an already reverted transaction under a fresh key (%s): %s" % ("forced" if q.get("force") else "unforced", res))
            others = [x for x in seen if x["type"] == "REVERTED_TRANSACTION" and x["ik"] and x["reverted"] != str(q["target"])]
            if not earlier and q.get("ik") and others and all(x["ik"] != q["ik"] for x in others):
                out.add("revert of ANOTHER transaction under a fresh key after a keyed revert: " + res)
            orig = by_id.get(str(q["target"]))
            if orig is not None and len(orig["tx"]["postings"]) == 2 and orig["tx"]["postings"][0][1] == orig["tx"]["postings"][1][0] and \
                    orig["tx"]["postings"][0][0] == "world":
                mid = orig["tx"]["postings"][0][1]
                spent = any(p[0] == mid for l in tx_logs(seen) if l is not orig and l["type"] == "NEW_TRANSACTION" for p in l["tx"]["postings"])
                out.add("revert of a chained transaction, middle account %s, %s: %s" % (
                    "spent from meanwhile" if spent else "untouched", "forced" if q.get("force") else "unforced", res))
        if q.get("ik"):
            rec = [l for l in seen if l["ik"] == q["ik"]]
            mine = r["ok"] and not q.get("dry") and any(producers_cached(run).get(l["id"]) == r["req"] for l in rec)
            if q.get("dry") and rec:
                out.add("preview with a key recorded by a real write (%s): %s" % (q["kind"], res))
            if not q.get("dry") and q["ik"] in previewed and (mine or not rec):
                out.add("real write with a key a preview used before, nothing recorded yet (%s): %s" % (q["kind"], res))
            if q.get("dry") and r["ok"]:
                previewed.add(q["ik"])
            if len(q["ik"]) >= 36 and rec and not mine and not q.get("dry"):
                out.add("retry with a key of %d bytes finds the recorded entry: %s" % (len(q["ik"]), res))
        if q.get("dry") and q["kind"] in ("setmeta", "delmeta") and r["ok"]:
            later_real = any(not reqs[x["req"]].get("dry") and x["ok"] and x["durable"] > r["durable"] for x in run["responses"])
            out.add("preview of a metadata write (%s target)%s" % ("account" if q.get("acct") else "transaction", ", real writes after it" if later_real else ""))
    # ---- situations of the third series (overlaps), decided on the trace
    seg, restarts = segments(run)
    inf = 1 << 30
    res_of = {r["req"]: ("accepted" if r["ok"] else r["err"].split(":")[0]) for r in run["responses"]}
    for b, q in enumerate(reqs):
        # (1) a source looked up from metadata, and a write of that registry entry persisted between the request's resolution
        # (resumed from "resolve") and its execution (resumed from "read-balances")
        if q["kind"] == "create" and q.get("via") in ("meta", "aliasmeta") and "at:resolve" in seg[b] and "at:read-balances" in seg[b]:
            for m, qm in enumerate(reqs):
                if qm["kind"] == "setmeta" and qm.get("acct") == "registry" and qm.get("key") == q["src"] and qm.get("val") != q["src"] and \
                        seg[b]["at:resolve"] < seg[m].get("persisted", inf) < seg[b]["at:read-balances"]:
                    racing = any(qa["kind"] == "create" and qa.get("src") == qm["val"] and a != b and
                                 seg[a].get("at:read-balances", inf) < seg[b].get("persisted", inf) and seg[b]["at:read-balances"] < seg[a].get("persisted", inf)
                                 for a, qa in enumerate(reqs))
                    out.add("payer switched (registry entry rewritten and persisted) between a request's resolution and its execution%s: %s" % (
                        ", another request spending from the new payer in flight" if racing else "", res_of.get(b, "never answered")))
        # (2) a forced revert in flight (balances read .. entry persisted) at the same time as a payment from an account it debits
        if q["kind"] == "revert" and not q.get("dry") and "at:read-balances" in seg[b]:
            orig = by_id.get(str(q["target"]))
            debits = {p[1] for p in orig["tx"]["postings"]} - {"world"} if orig else set()
            for a, qa in enumerate(reqs):
                if a != b and qa["kind"] == "create" and not qa.get("dry") and qa.get("src") in debits and qa.get("via") in ("lit", "var", "meta") and \
                        "at:lock" in seg[a] and seg[a]["at:lock"] < seg[b].get("persisted", seg[b].get("finish", inf)) and \
                        seg[b]["at:read-balances"] < seg[a].get("persisted", seg[a].get("finish", inf)):
                    out.add("%s revert in flight together with a payment from the account it debits: payment %s, revert %s" % (
                        "forced" if q.get("force") else "unforced", res_of.get(a, "never answered"), res_of.get(b, "never answered")))
        # (3) set-metadata with an empty map
        if q["kind"] == "setmeta" and q.get("empty") and not q.get("dry") and b in res_of:
            tgt = "account" if q.get("acct") else ("existing transaction" if str(q.get("target")) in by_id else "missing transaction")
            resp = next(r for r in run["responses"] if r["req"] == b)
            retry = bool(q.get("ik")) and any(l["ik"] == q["ik"] and producers_cached(run).get(l["id"]) != b for l in d[:resp["durable"]])
            out.add("set-metadata with an EMPTY map, %s, %s: %s" % (tgt, "retry of a recorded key" if retry else "keyed" if q.get("ik") else "no key", res_of[b]))
        # (4) a revert whose caller went away while it waited for the store; another revert started before its entry was persisted
        if q["kind"] == "revert" and "cancelled" in seg[b] and "commit" in seg[b]:
            for a, qa in enumerate(reqs):
                if a != b and qa["kind"] == "revert" and seg[b]["cancelled"] < seg[a].get("at:revert-take", inf) < seg[b].get("persisted", inf):
                    out.add("revert cancelled while waiting for the store, then a revert of %s transaction before its entry is persisted: %s" % (
                        "the SAME" if qa.get("target") == q.get("target") else "ANOTHER", res_of.get(a, "never answered")))
    # ---- situations of the fourth series
    # (6) a reference that differs from a committed one only by blanks / letter case / invisible characters; the same spelling again
    for r in run["responses"]:
        q = reqs[r["req"]]
        if q["kind"] == "create" and q.get("ref") and not q.get("dry"):
            res = "accepted" if r["ok"] else r["err"].split(":")[0]
            own = r["tx"]["id"] if r["ok"] and r["tx"] else None
            others = [l["tx"]["reference"] for l in tx_logs(d[:r["durable"]]) if l["tx"]["reference"] and l["tx"]["id"] != own]
            if any(o != q["ref"] and ref_key(o) == ref_key(q["ref"]) for o in others):
                out.add("reference differing from a committed one only by blanks / case / invisible characters: " + res)
            if ref_key(q["ref"]) != q["ref"].lower() and q["ref"] in others:
                out.add("a padded reference submitted again under the same spelling: " + res)
    for b, q in enumerate(reqs):
        # (7) a preview of a revert, from its first step to its answer inside the window in which a real revert of the same transaction
        # is reserved and not yet persisted; another real revert of that transaction starting after the preview, inside the same window
        if q["kind"] == "revert" and q.get("dry") and "finish" in seg[b] and "at:revert-take" in seg[b]:
            for a, qa in enumerate(reqs):
                if a != b and qa["kind"] == "revert" and not qa.get("dry") and qa.get("target") == q.get("target") and "at:revert-take" in seg[a] and \
                        seg[a]["at:revert-take"] < seg[b]["at:revert-take"] and seg[b]["finish"] < seg[a].get("persisted", seg[a].get("finish", inf)):
                    later = [c for c, qc in enumerate(reqs) if c not in (a, b) and qc["kind"] == "revert" and not qc.get("dry") and qc.get("target") == q.get("target") and
                             seg[b]["finish"] < seg[c].get("at:revert-take", inf) < seg[a].get("persisted", seg[a].get("finish", inf))]
                    out.add("preview of a revert answered (%s) while a real revert of the same transaction is in flight%s" % (
                        res_of.get(b, "?"), "; a second real revert before the first is persisted: " + res_of.get(later[0], "never answered") if later else ""))
        # (8) a preview that started while a real write touching its source account was committed and not yet persisted
        if q.get("dry") and q["kind"] in ("create", "revert") and "at:start" in seg[b]:
            mine = {q.get("src")} if q["kind"] == "create" else ({p[1] for p in by_id[str(q["target"])]["tx"]["postings"]} if str(q.get("target")) in by_id else set())
            for a, qa in enumerate(reqs):
                if a == b or qa.get("dry") or "commit" not in seg[a]:
                    continue
                touched = {qa.get("src"), qa.get("dst")} if qa["kind"] == "create" else set()
                window = (seg[a]["commit"], seg[a].get("persisted", inf))
                if (mine & touched) - {"world", None} and "finish" in seg[b]:
                    if any(window[0] < seg[b].get(k, -1) < window[1] for k in ("at:start", "at:resolve", "at:lock", "at:read-balances", "at:revert-take")):
                        tr = next((t for t in run.get("twin_real") or [] if t["req"] == b), None)
                        real = next((answer_class(x) for x in (tr or {}).get("responses", []) if x["req"] == b), "not answered") if tr else "no twin"
                        out.add("preview on its way while a write on its source account is committed, not yet persisted: preview %s / as the real write %s" % (res_of.get(b, "?"), real))
    # (9) a lookup that failed, by kind and by whether the request had an entry persisted at that moment
    pers_at = {}
    for i, t in enumerate(run["trace"]):
        if isinstance(t, dict) and t.get("store") == "fault":
            a = t.get("a")
            had = seg[a].get("persisted", inf) < i if a is not None else False
            out.add("transient read fault on a lookup by %s%s: %s" % ({"ik": "idempotency key", "ref": "reference", "tx": "transaction id"}.get(t.get("what"), t.get("what")),
                                                                       ", AFTER the request's entry was persisted" if had else "", res_of.get(a, "never answered")))
    # (5) graceful stop + reopen while a batch was inside InsertLogs
    cl = run.get("close")
    if cl:
        pend, npend = [], 0
        for t in run["trace"]:
            if not isinstance(t, dict):
                continue
            if "committed" in t:
                pend.append(t["a"])
            elif t.get("a") == -1 and t.get("at") == "gate":
                pend = pend[t.get("batch", 1):]
            elif "crash" in t:
                pend = []
            elif "close" in t and "batch_in_store" in t:
                npend = max(0, len(pend) - int(t.get("batch_in_store") or 0))
                break
        woke = sum(1 for t in run["trace"] if isinstance(t, dict) and t.get("after_close"))
        out.add("graceful stop: entries handed to the batcher and still PENDING behind the batch being written: %s%s" % (
            "none" if npend == 0 else ">= 1", "; requests of the stopped commander woken by the stop: %d" % woke if woke else ""))
        later = sum(1 for r in run["responses"] if r["ok"] and reqs[r["req"]].get("phase", 0) > cl.get("phase", 0))
        out.add("graceful stop (Close) while a batch of %s was inside InsertLogs — Close returned %s; %s" % (
            "1" if cl.get("batch_in_store") == 1 else ">= 2", cl.get("returned"), "writes accepted after the reopen" if later else "no write after the reopen"))
    # events leaving the commander out of transaction-id order (two writers woken in the other order)
    ids = [int(e["tx"]["id"]) for e in run["events"] if e["type"] == "committed" and e.get("tx") and e["tx"]["id"].isdigit()]
    if any(b < a for a, b in zip(ids, ids[1:])):
        out.add("COMMITTED_TRANSACTIONS messages out of transaction-id order")
    return out


def ref_key(ref):
    """a reference without blanks, control / invisible characters and letter case (what a 'normalising' change would compare)"""
    return "".join(c for c in ref if not c.isspace() and c not in "\x00\u00a0\u2003\ufeff").lower()


_PROD = {}


def producers_cached(run):
    k = id(run)
    if k not in _PROD:
        _PROD.clear()
        _PROD[k] = producers(run)
    return _PROD[k]


def validate_traces(ctx, inputs, impl, components=None):
    """L2: every observed run must be accepted by the Lean component models (trace validation)."""
    path_in, path_out = ctx.path("enginetrace.in.jsonl"), ctx.path("enginetrace.model.jsonl")
    rows = [{"id": s["id"], "requests": s["requests"], "runs": impl[s["id"]]["runs"]} for s in inputs if "runs" in impl.get(s["id"], {})]
    plans_of = {s["id"]: (impl[s["id"]].get("plans") or s["plans"]) for s in inputs if "runs" in impl.get(s["id"], {})}
    write_jsonl(path_in, rows)
    p = run_driver("enginetrace", path_in, path_out)
    if p.returncode != 0:
        ctx.l2_broken.append({"stream": "enginetrace-driver", "detail": (p.stdout + p.stderr)[-1500:]})
        return 0
    validated, rejected = 0, collections.Counter()
    byid = {s["id"]: s for s in inputs}
    for r in read_jsonl(path_out):
        out = r["out"]
        if "driver_error" in out:
            ctx.l2_broken.append({"stream": "enginetrace-driver", "id": r["id"], "detail": out["driver_error"]})
            continue
        for k, run in enumerate(out["runs"]):
            validated += 1
            for rej in run["rejected"]:
                if components is not None and rej["component"] not in components:
                    continue
                rejected[rej["component"]] += 1
                if rejected[rej["component"]] <= 2:
                    scn = byid[r["id"]]
                    ctx.l2_broken.append({"stream": "trace-validation:" + rej["component"], "id": r["id"], "why": rej["why"], "event_index": rej["event"],
                                          "input": dict(scn, plans=[plans_of[r["id"]][k]])})
    ctx.cov["traces_validated_against_impl"] = validated
    ctx.cov["trace_rejections"] = dict(rejected)
    return validated


def regen_skeleton(ctx):
    """Re-extract the commander skeleton from the sources of this run; returns True when Generated/Commander.lean exists."""
    err = None
    for name, f in regen.GENERATORS:
        if name == "commander":
            err = f()
    if err:
        ctx.l1_broken.append("extract/commander could not translate internal/engine/command: " + err)
        ctx.cov["skeleton"] = {"translated": False, "error": err[:600]}
        return False
    sm = json.load(open(os.path.join(BUILD, "commander.json")))
    ctx.cov["skeleton"] = {"translated": True, "entry_points": sm["entry_points"], "functions_inlined": sm["inlined"],
                           "primitives_checked": sm["primitives_checked"], "actions": sm["actions"], "yield_points": sm["yield_points"],
                           "conditions": sm["atoms"], "opaque_conditions": sm["opaque_conditions"],
                           "calls_skipped": len(sm["calls_skipped_as_unable_to_touch_the_protocol"])}
    return True


def skeleton_summary(ctx):
    """paths / clauses of the regenerated skeleton, evaluated natively (names the failing clauses when Props.Skeleton does not build)"""
    ok, out = lake_build(["driver_skel"])
    if not ok:
        ctx.l2_broken.append({"stream": "driver_skel-build", "detail": out[-1500:]})
        return False
    p = subprocess.run([DRIVER_SKEL, "skelsummary"], input='{"id":0}\n', capture_output=True, text=True, timeout=600)
    try:
        eps = json.loads(p.stdout.splitlines()[0])["out"]["entry_points"]
    except Exception:
        ctx.l2_broken.append({"stream": "driver_skel", "detail": (p.stdout + p.stderr)[-800:]})
        return False
    ctx.cov["skeleton"]["paths"] = {e["entry_point"]: e["paths"] for e in eps}
    ctx.cov["skeleton"]["longest_path"] = max(e["longest"] for e in eps)
    ctx.cov["skeleton"]["clauses_per_path"] = eps[0]["clauses"]
    failing = {e["entry_point"]: e["failing_clauses"] for e in eps if e["failing_clauses"]}
    if failing:
        ctx.cov["skeleton"]["failing_clauses"] = failing
        ex = next(e["failing_example"] for e in eps if e["failing_clauses"])
        ctx.cov["skeleton"]["failing_example"] = ex
        ctx.l1_broken.append("skeleton well-formedness (Props.Skeleton.wf_generated) fails: " +
                             "; ".join("%s: %s" % (k, ",".join(v)) for k, v in sorted(failing.items())))
    return True


def validate_skeleton_paths(ctx, inputs, impl):
    """L2: the own event sequence of every request of every observed run must be a control path of the regenerated skeleton."""
    path_in, path_out = ctx.path("enginetrace.in.jsonl"), ctx.path("skelpaths.model.jsonl")
    if not os.path.exists(path_in):
        return
    with open(path_in) as fin:
        p = subprocess.run([DRIVER_SKEL, "skelpaths"], stdin=fin, capture_output=True, text=True, timeout=3000)
    open(path_out, "w").write(p.stdout)
    if p.returncode != 0:
        ctx.l2_broken.append({"stream": "skeleton-paths", "detail": (p.stdout + p.stderr)[-1500:]})
        return
    byid = {s["id"]: s for s in inputs}
    plans_of = {s["id"]: (impl[s["id"]].get("plans") or s["plans"]) for s in inputs if "runs" in impl.get(s["id"], {})}
    n, bad = 0, 0
    for r in read_jsonl(path_out):
        out = r["out"]
        if "driver_error" in out:
            ctx.l2_broken.append({"stream": "skeleton-paths", "id": r["id"], "detail": out["driver_error"]})
            continue
        for k, run in enumerate(out["runs"]):
            n += run["requests"]
            for b in run["not_a_path"]:
                bad += 1
                if bad <= 3:
                    scn = byid[r["id"]]
                    ctx.l2_broken.append({"stream": "skeleton-paths", "id": r["id"], "actor": b["actor"], "entry_point": b["entry_point"],
                                          "why": "the events of this request are not a control path of the regenerated skeleton",
                                          "observed": b["observed"], "input": dict(scn, plans=[plans_of[r["id"]][k]])})
    ctx.cov["skeleton"]["request_sequences_checked_against_paths"] = n
    ctx.cov["skeleton"]["not_a_path"] = bad


def validate_skeleton_replay(ctx, inputs, impl):
    """L2: every observed run, replayed in SkelSys (the transition system that interprets the regenerated skeleton), must be a run
    of it with the same events: ties the meaning given to the skeleton's actions to the running code."""
    path_in, path_out = ctx.path("enginetrace.in.jsonl"), ctx.path("skelreplay.model.jsonl")
    if not os.path.exists(path_in):
        return
    with open(path_in) as fin:
        p = subprocess.run([DRIVER_SKEL, "skelreplay"], stdin=fin, capture_output=True, text=True, timeout=3000)
    open(path_out, "w").write(p.stdout)
    if p.returncode != 0:
        ctx.l2_broken.append({"stream": "skeleton-replay", "detail": (p.stdout + p.stderr)[-1500:]})
        return
    byid = {s["id"]: s for s in inputs}
    plans_of = {s["id"]: (impl[s["id"]].get("plans") or s["plans"]) for s in inputs if "runs" in impl.get(s["id"], {})}
    n, ev, bad = 0, 0, 0
    for r in read_jsonl(path_out):
        out = r["out"]
        if "driver_error" in out:
            ctx.l2_broken.append({"stream": "skeleton-replay", "id": r["id"], "detail": out["driver_error"]})
            continue
        for k, run in enumerate(out["runs"]):
            if impl[r["id"]]["runs"][k].get("watchdog"):
                continue
            n += 1
            ev += run["events"]
            if run["mismatch"]:
                bad += 1
                if bad <= 3:
                    scn = byid[r["id"]]
                    ctx.l2_broken.append(dict(run["mismatch"], stream="skeleton-replay", id=r["id"], input=dict(scn, plans=[plans_of[r["id"]][k]])))
    ctx.cov["skeleton"]["runs_replayed_in_the_interpreted_skeleton"] = n
    ctx.cov["skeleton"]["events_reproduced"] = ev
    ctx.cov["skeleton"]["replay_mismatches"] = bad


def run_check(ctx, prop, components, nontrivial, rule, quick_n=120, thorough_n=1500):
    ctx.cov["trusted_base"] = TRUSTED
    have_skel = regen_skeleton(ctx)
    ctx.l1(extra=["Skeleton", "SkeletonRef", "SkeletonEvents", "SkeletonGuard"])
    have_skel = have_skel and skeleton_summary(ctx)
    r = run_engine(ctx, quick_n if ctx.quick else thorough_n)
    if r is None:
        return
    inputs, impl, _ = r
    validate_traces(ctx, inputs, impl, components)
    if have_skel:
        validate_skeleton_paths(ctx, inputs, impl)
        validate_skeleton_replay(ctx, inputs, impl)
    runs, nt = evaluate(ctx, prop, inputs, impl, nontrivial)
    ctx.cov["evaluations"] = runs
    ctx.cov["scenarios"] = len(inputs)
    ctx.cov["distinct_nontrivial"] = nt
    ctx.cov["rule"] = ("random scenarios of 2-%d requests (create by script with the source named by a literal, a variable or a metadata lookup; revert forced or not; "
                       "set/delete metadata; previews; shared idempotency keys (up to 300 bytes) and references; sequential phases and concurrent bursts) + half as many "
                       "multi-step histories around one entry (reference resubmitted after the revert of its holder; second revert under a fresh key; one key on a real "
                       "write and a preview; metadata previews with a twin run; chained transaction spent from, then reverted unforced / forced; write - retry - "
                       "restart - retry under a long key) + a third as many overlap situations, each with seeded random AND directed schedules (payer looked up "
                       "from metadata rewritten while the request is on its way, a third request spending from the new payer; forced revert racing a payment "
                       "from the account it debits; set-metadata with an empty map with / without key and its retry; revert cancelled while waiting for the "
                       "store, then another revert of the same account / the same transaction; graceful Close while a batch is inside InsertLogs, reopen, "
                       "further writes) + a quarter as many situations with previews, faults and the stop INSIDE an overlap (one reference under several spellings: blanks, tab, "
                       "newline, no-break space, letter case, NUL; preview of a revert while a real revert of the same transaction is in flight, then a second real "
                       "revert, with a twin run under the same directed schedule; preview while a write on its source account is committed and not yet persisted, with "
                       "a twin run in which the preview is submitted as the real write; the k-th lookup of any kind failing; graceful Close with another entry "
                       "pending behind the batch being written, requests woken by the stop run on) x seeded random schedules "
                       "over every yield point, persistence latency as a scheduling choice, a crash or a store failure in part of the schedules; non-trivial = %s") % (
                           4 if ctx.quick else 6, rule)
    s0 = inputs[0]
    ctx.cov["samples"] = [{"requests": s0["requests"], "plan": s0["plans"][0], "responses": impl[s0["id"]]["runs"][0]["responses"],
                           "trace_head": impl[s0["id"]]["runs"][0]["trace"][:12]}]
    ctx.cov["input_distribution"] = distribution(inputs, impl)


def concurrent(scn, run):
    """did two requests overlap in time (some request resumed while another one was between start and finish)?"""
    active, overlap = set(), False
    for t in run["trace"]:
        if isinstance(t, dict) and "a" in t and t.get("a", -1) >= 0:
            if t.get("arrive") == "start":
                active.add(t["a"])
            if t.get("finish"):
                active.discard(t["a"])
            if "at" in t and len(active) > 1 and t["at"] != "start":
                overlap = True
    return overlap


def restarted(run):
    return any(isinstance(t, dict) and "crash" in t for t in run["trace"])
