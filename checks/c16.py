"""C16 — published events describe committed changes, faithfully."""
from checks.enginelib import *

META = {
    "text": 'Lean: component model Events; theorems event_implies_durable (every published event has a persisted entry with that content, incl. which transaction was reverted and which reverts it) and ack_implies_published. Tie: trace validation with a recording bus.Monitor; oracle on events vs the durable log at publication time.',
    "note": 'Trusted: Lean kernel; event extraction. The mapping bus.Monitor -> message payload (ledgerMonitor) is not modelled.',
    "technique": 'Lean 4 proof (inductive invariant of the Events component) + trace validation + event oracle',
    "design_ref": '5 (C16)',
}


def run(ctx):
    run_check(ctx, 'C16', ["events"], lambda scn, run: len(run["events"]) > 0, 'an event was emitted')
