"""C16 — published events describe committed changes, faithfully."""
from checks.enginelib import *

META = {
    "text": 'Lean: component model Events; inductive invariant Events.Inv (step_inv); theorems over all accepted event sequences: event_implies_durable (every published event has a persisted entry with that content), event_only_for_durable (at the publishing step: never a preview, the event describes the entry of the publishing request, persisted at that moment), describes_content + roles_matter (for a revert: which transaction was reverted and which reverts it; exchanged roles are rejected), event_without_entry_rejected, ack_implies_published + answer_only_when_published (a real write is answered successfully only after an event describing its entry is on the bus), preview_never_publishes, event_stays_backed, no_event_without_entry_after_crash. Tie: trace validation on what reaches the message.Publisher behind the REAL bus.NewLedgerMonitor (messages decoded back into event records; the calls the commander makes on the monitor are recorded next to them); oracle on events vs the durable log at publication time, persisted-but-never-published absent crashes, and every announcement the commander asked for reached the bus with the same content (event-dropped / -altered-by-monitor, event-not-asked-for, envelope).',
    "note": 'Trusted: Lean kernel; event extraction (the decoding of the published JSON message back into the event record, generic JSON, none of the repository types). The ledgerMonitor itself is run, not modelled.',
    "technique": 'Lean 4 proof (inductive invariant of the Events component) + trace validation + event oracle over the messages the real ledgerMonitor publishes + regenerated commander skeleton (extract/commander -> Generated/Commander.lean on every run): well-formedness of every control path by decide, refinement of this component by the interpreted skeleton under every schedule, observed runs re-executed in the skeleton system',
    "design_ref": '5 (C16)',
}


def run(ctx):
    run_check(ctx, 'C16', ["events"], lambda scn, run: len(run["events"]) > 0, 'an event was emitted')
