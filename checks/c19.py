"""C19 — read-only mode executes no write."""
import collections
from vlib.common import *
from vlib import regen

META = {
    "text": "Lean theorems (read_only_blocks, safe_methods_reach_no_writer, read_only_no_write, gate_installed, gate_is_readOnlyGate, "
            "no_method_rewrite, no_writing_middleware, …) about Model.Router.dispatch over the route table, middleware stacks and gate "
            "that extract/routes (go/ast) RE-EXTRACTS on every run from internal/api/{read_only,router}.go and v1|v2/routes.go, for every "
            "request (any method string, path, header); tied to the real api.NewRouter(…, readOnly) by (a) table = chi.Walk of the real "
            "router, (b) a seeded differential of dispatch vs the real router on every registered route x methods x path/body/header/query "
            "mutations (incl. every path parameter spelled as every static segment of the table, plain and behind an encoded slash), in read-only and in control mode, "
            "(c) an oracle counting the write calls a recording backend saw, per request on a fresh router AND on ONE shared read-only router serving write and safe requests at once "
            "(a deterministic interleaving at every touch of the response writer / body, and a bounded stress stream; thorough: the same under the race detector, "
            "data races with frames in internal/api are reported). The oracle runs whether or not the translator could read the sources.",
    "note": "Trusted: Lean kernel (axioms propext/Classical.choice/Quot.sound at most); the syntactic, name-based call-graph rule of the "
            "extractor (a write is a selector named CreateTransaction|RevertTransaction|SaveMeta|DeleteMetadata reachable through functions "
            "of the packages under internal/api; functions of other packages are leaves); its allow-list of external middlewares "
            "(go-chi/cors, chi middleware.Recoverer, go-libs auth.Middleware, otelchi.Middleware) and of health.HealthController.Check; "
            "net/http request parsing (the model starts from the path chi routes on); the Go harness and its recording fake backend. "
            "Creating a ledger (v2 POST /{ledger}, v1 auto-create middleware) is not one of the property's writes and is only counted.",
    "technique": "Lean 4 proof over a regenerated route/middleware table (decide + induction over the middleware stack and mux depth) "
                 "+ differential correspondence with the real chi router + recording-backend oracle",
    "design_ref": "5 (C19), 3.8",
}

WRITE_KINDS = ("create", "revert", "savemeta", "deletemeta")


def proj(o):
    return {"outcome": o.get("outcome"), "matched": o.get("matched", "")} if "panic" not in o else {"panic": o["panic"]}


def run(ctx):
    ctx.cov["trusted_base"] = [
        "Lean 4.33 kernel; axioms allowed: propext, Classical.choice, Quot.sound",
        "extract/routes: go/ast interpreter of the chi DSL (fails on anything it does not recognise) and name-based write reachability over internal/api/{.,backend,v1,v2}",
        "allow-listed externals: go-chi/cors (default options), chi middleware.Recoverer, go-libs auth.Middleware, otelchi.Middleware, health.HealthController.Check",
        "chi's matching is modelled (segment-wise, static>param>mount, sticky 405 hint) and tied by the differential only; net/http URL parsing is not modelled",
        "harness: real api.NewRouter in-process over a recording fake backend.Backend/backend.Ledger",
    ]
    # ---- regenerate the model from the sources of this run
    regen_err = None
    for name, f in regen.GENERATORS:
        if name == "routes":
            regen_err = f()
    if regen_err:
        ctx.l1_broken.append("extract/routes could not read the sources: " + regen_err)
    summary = {}
    if os.path.exists(os.path.join(BUILD, "routes.json")):
        summary = json.load(open(os.path.join(BUILD, "routes.json")))
        ctx.cov["regenerated"] = {
            "routes": len(summary["routes"]), "write_routes": summary["write_routes"], "muxes": len(summary["muxes"]),
            "gate_pass_methods": summary["gate_pass"], "method_writers": summary["method_writers"],
            "packages_analysed": summary["packages_analysed"],
            "write_handlers": sorted({r["version"] + "." + r["handler"] for r in summary["routes"] if r["writes"]}),
        }
    # ---- L1
    ctx.l1()
    have_model = (not regen_err) and ctx.ensure_driver("router")
    if not ctx.ensure_harness():
        return
    # ---- inputs
    n = 5 if ctx.quick else 200
    if ctx.replay_file:
        rp = json.load(open(ctx.replay_file))
        inputs = rp["replay"]["inputs"] if "inputs" in rp.get("replay", {}) else [rp["replay"]["input"]]
        for k, r in enumerate(inputs):
            r.setdefault("id", k)
    else:
        gen = ctx.path("router.gen.jsonl")
        p = run_harness(["router", "gen", "-seed", ctx.seed, "-n", n, "-tier", ctx.tier, "-out", gen])
        if p.returncode != 0:
            ctx.l2_broken.append({"stream": "router-gen", "detail": (p.stdout + p.stderr)[-2000:]})
            return
        inputs = corpus_inputs("router") + read_jsonl(gen)
    inp = ctx.path("router.in.jsonl")
    write_jsonl(inp, inputs)
    implf, modelf = ctx.path("router.impl.jsonl"), ctx.path("router.model.jsonl")
    p = run_harness(["router", "exec", "-in", inp, "-out", implf])
    if p.returncode != 0:
        ctx.l2_broken.append({"stream": "router-exec", "detail": (p.stdout + p.stderr)[-2000:]})
        return
    impl = {r["id"]: r["out"] for r in read_jsonl(implf)}
    model = {}
    if have_model:
        # the model answers the single requests; what several requests do to one shared router is judged by the oracle only
        minp = ctx.path("router.model-in.jsonl")
        write_jsonl(minp, [i for i in inputs if i.get("op") in ("walk", "req")])
        p = run_driver("router", minp, modelf)
        if p.returncode != 0:
            ctx.l2_broken.append({"stream": "router-driver", "detail": (p.stdout + p.stderr)[-2000:]})
            have_model = False
        else:
            model = {r["id"]: r["out"] for r in read_jsonl(modelf)}
    walks = [i for i in inputs if i.get("op") == "walk"]
    reqs = [i for i in inputs if i.get("op") == "req"]

    # ---- L2: the regenerated table is what chi registered; dispatch agrees with the real router in both modes
    if have_model:
        compare(ctx, "router:table=chi.Walk", walks, impl, model,
                proj_impl=lambda i, o: sorted((r["pattern"], r["method"]) for r in o.get("routes", [])),
                proj_model=lambda i, o: sorted((r["pattern"], r["method"]) for r in o.get("routes", [])))
        compare(ctx, "router:dispatch-read-only", reqs, impl, model,
                proj_impl=lambda i, o: dict(proj(o["ro"]), rpath=o.get("rpath"), parse=o.get("parse")),
                proj_model=lambda i, o: dict(proj(o["ro"]), rpath=i.get("rpath"), parse=i.get("parse")))
        compare(ctx, "router:dispatch-control", reqs, impl, model,
                proj_impl=lambda i, o: proj(o["rw"]), proj_model=lambda i, o: proj(o["rw"]))
        # the same router mounted under an outer chi router, as cmd/serve.go serves it, dispatches as the model says too
        # (a method string chi does not know is answered 405 by the outer mux before the api router sees it: compared for chi's nine methods)
        # and a routing path without a leading slash ("*") is a 404 of the outer mux)
        CHI = ("GET", "HEAD", "OPTIONS", "POST", "PUT", "PATCH", "DELETE", "CONNECT", "TRACE")

        def outer_passes(i):
            return i["method"] in CHI and str(i.get("rpath") or "").startswith("/")
        compare(ctx, "router:dispatch-read-only(mounted as cmd/serve.go)", [i for i in reqs if "ro_m" in impl.get(i["id"], {}) and outer_passes(i)], impl, model,
                proj_impl=lambda i, o: proj(o["ro_m"]), proj_model=lambda i, o: proj(o["ro"]))
        compare(ctx, "router:dispatch-control(mounted as cmd/serve.go)", [i for i in reqs if "rw_m" in impl.get(i["id"], {}) and outer_passes(i)], impl, model,
                proj_impl=lambda i, o: proj(o["rw_m"]), proj_model=lambda i, o: proj(o["rw"]))
        # a handler seen writing must be classified `writes` by the extractor
        compare(ctx, "router:observed-writer-is-classified-write", [i for i in reqs if impl.get(i["id"], {}).get("rw", {}).get("writes")],
                impl, model, proj_impl=lambda i, o: True, proj_model=lambda i, o: bool(o["rw"].get("writes")))

    # ---- L3: the property itself on what the implementation did
    oc = collections.Counter()
    seen, nontrivial = set(), 0
    would_write, would_write_routes = 0, collections.Counter()
    ledger_creates_ro, reached_ro_by_method = 0, collections.Counter()
    methods_seen, muts = collections.Counter(), collections.Counter()
    for i in reqs:
        o = impl.get(i["id"])
        if o is None:
            continue
        ro, rw = o["ro"], o["rw"]
        for mode, x in (("ro", ro), ("rw", rw)):
            if "panic" in x:
                ctx.l2_broken.append({"stream": "router-panic", "id": i["id"], "input": i, "impl": x})
        oc["ro:" + str(ro.get("outcome"))] += 1
        oc["control:" + str(rw.get("outcome"))] += 1
        for shape, x in (("alone", ro), ("mounted as cmd/serve.go mounts it", o.get("ro_m") or {})):
            if "panic" in x and shape != "alone":
                ctx.l2_broken.append({"stream": "router-panic", "id": i["id"], "input": i, "impl": x})
            wr = [k for k in x.get("writes", []) if k in WRITE_KINDS]
            if wr:
                sig = {"property": "C19", "class": "write-in-read-only", "writes": sorted(set(wr)), "method": i["method"],
                       "endpoint": x.get("matched", "")}
                if shape != "alone":
                    sig["shape"] = "mounted"
                ctx.violation(sig, "read-only router (%s): %s %s executed %s on the backend (status %s, endpoint %s)" % (
                    shape, i["method"], i["target"], "+".join(wr), x.get("status"), x.get("matched") or "?"),
                    {"area": "router", "input": i, "observed": x, "shape": shape})
                oc["ro-writes:" + ("alone" if shape == "alone" else "mounted")] += 1
        if [k for k in rw.get("writes", []) if k in WRITE_KINDS]:
            would_write += 1
            would_write_routes[rw.get("matched", "")] += 1
        ledger_creates_ro += 1 if ro.get("ledger_creates") else 0
        if ro.get("outcome") == "reached":
            reached_ro_by_method[i["method"]] += 1
        methods_seen[i["method"]] += 1
        for m in i.get("mut", []) or ["intact"]:
            muts[m] += 1
        h = shash([i["method"], i["target"], i.get("headers"), i.get("body"), i.get("missing")])
        if h not in seen and o.get("parse") != "unparsable":
            nontrivial += 1
        seen.add(h)

    # ---- L3, several requests at once on ONE read-only router: no write may reach the backend whatever runs in between
    conc = {"interleaved_write_requests": 0, "interleaved_reader_runs": 0, "interleaved_passed_the_gate": 0,
            "stress_write_attempts": 0, "stress_reads_served_meanwhile": 0, "stress_not_answered_READ_ONLY": 0, "stress_writes": 0}
    for i in inputs:
        o = impl.get(i["id"])
        if o is None or i.get("op") not in ("interleave", "stress"):
            continue
        if "panic" in o:
            ctx.l2_broken.append({"stream": "router-panic", "id": i["id"], "input": i, "impl": o})
            continue
        if i["op"] == "interleave":
            conc["interleaved_write_requests"] += 1
            for shape, key in (("alone", "ro"), ("mounted as cmd/serve.go mounts it", "ro_m")):
                x = o.get(key) or {}
                if "panic" in x:
                    ctx.l2_broken.append({"stream": "router-panic", "id": i["id"], "input": i, "impl": x})
                    continue
                conc["interleaved_reader_runs"] += x.get("reader_runs", 0)
                conc["interleaved_passed_the_gate"] += 0 if x.get("rejected") else 1
                wr = [k for k in x.get("writes", []) if k in WRITE_KINDS]
                if wr:
                    sig = {"property": "C19", "class": "write-in-read-only", "concurrency": "interleaved", "writes": sorted(set(wr)), "method": i["method"]}
                    if key == "ro_m":
                        sig["shape"] = "mounted"
                    ctx.violation(sig, "read-only router (%s), ONE instance serving two requests: %s %s executed %s on the backend (status %s) when a complete %s %s "
                                  "ran on another goroutine each time the server touched the response writer / the body of the write request" % (
                                      shape, i["method"], i["target"], "+".join(wr), x.get("status"), i["reader"]["method"], i["reader"]["target"]),
                                  {"area": "router", "input": i, "observed": x, "shape": shape})
                    oc["ro-writes:interleaved"] += 1
        else:
            for shape in ("alone", "mounted"):
                x = o.get(shape) or {}
                conc["stress_write_attempts"] += x.get("attempts", 0)
                conc["stress_reads_served_meanwhile"] += x.get("reads_served", 0)
                conc["stress_not_answered_READ_ONLY"] += x.get("not_rejected", 0)
                conc["stress_writes"] += x.get("writes", 0)
                if x.get("writes", 0):
                    sig = {"property": "C19", "class": "write-in-read-only", "concurrency": "stress"}
                    if shape == "mounted":
                        sig["shape"] = "mounted"
                    ctx.violation(sig, "read-only router (%s), ONE instance under load: %d of %d write requests sent while %d goroutines looped over safe requests "
                                  "executed a write on the backend (%s); not answered 400 READ_ONLY: %d, e.g. %s" % (
                                      shape, x["writes"], x["attempts"], i["readers"], canon(x.get("kinds")), x.get("not_rejected", 0), canon(x.get("first"))[:300]),
                                  {"area": "router", "input": i, "observed": x, "shape": shape,
                                   "note": "not deterministic: the interleaving is left to the Go scheduler; rerun if the replay passes"})
                    oc["ro-writes:stress"] += 1
    ctx.cov["one_shared_router"] = conc
    if not ctx.replay_file and (conc["interleaved_write_requests"] == 0 or conc["stress_write_attempts"] == 0):
        ctx.l2_broken.append({"stream": "router-concurrency-not-run", "detail": "no interleave / stress case was executed: %s" % conc})

    # ---- thorough tier: the shared-router cases once more under the race detector.  A data race whose stacks lie in /repo's
    # internal/api (the gate, the routers, the handlers) is reported; the harness's own frames (internal/verifharness) do not count.
    if not ctx.quick and not ctx.replay_file:
        rb = ctx.ensure_harness(race=True)
        if rb:
            sub = [dict(i, writes=min(i.get("writes", 0), 4000)) if i.get("op") == "stress" else i for i in inputs if i.get("op") in ("interleave", "stress")]
            rin, rout = ctx.path("router.race.in.jsonl"), ctx.path("router.race.impl.jsonl")
            write_jsonl(rin, sub)
            p = run_harness(["router", "exec", "-in", rin, "-out", rout], binary=rb, env={"GORACE": "halt_on_error=0 exitcode=0"})
            reports = [b for b in p.stderr.split("==================") if "WARNING: DATA RACE" in b]
            in_api = [b for b in reports if re.search(r"/internal/api/(?!backend/)[\w/]*\.go:\d+", b)]
            ctx.cov["race_detector"] = {"cases": len(sub), "data_race_reports": len(reports), "with_frames_in_internal_api": len(in_api),
                                        "exit_code": p.returncode}
            if p.returncode != 0 and not reports:
                ctx.l2_broken.append({"stream": "router-race-exec", "detail": (p.stdout + p.stderr)[-2000:]})
            if in_api:
                files = sorted(set(re.findall(r"/internal/api/([\w/]*\.go):\d+", in_api[0])))
                ctx.violation({"property": "C19", "class": "data-race-in-gate", "files": files},
                              "the race detector reports %d data race(s) with frames in internal/api (%s) while one read-only router served write and safe "
                              "requests at once: the verdict on a request can depend on another request" % (len(in_api), ", ".join(files)),
                              {"area": "router", "inputs": sub[-1:], "race_report": in_api[0][:4000],
                               "how": "bin/check C19 thorough (race build of the harness: go build -race, GORACE=halt_on_error=0)"})

    ctx.cov["evaluations"] = len(reqs) + conc["interleaved_write_requests"] + (1 if conc["stress_write_attempts"] else 0)
    ctx.cov["distinct_nontrivial"] = nontrivial
    ctx.cov["rule"] = ("every route chi.Walk reports on the real router (its own method, intact, 6 variants) + every registered pattern x "
                       "(9 chi methods + %d odd method strings) x (1 intact + %d mutated: trailing/double slash, other ledger names, "
                       "%%-encoding, case, dot segments, truncation, extra segment, v1<->v2, prefix dropped, absolute form) x bodies "
                       "(create/script/metadata/revert/bulk/garbage) x override headers x query strings, each run on a readOnly=true and a "
                       "readOnly=false router, each both alone and mounted under an outer chi router as cmd/serve.go does; + every route with a path parameter x "
                       "10 escaped spellings of that parameter (%%2F, %%2f, %%252F, %%20, %%3A, first byte encoded, …) with the route's own method and body; + 'param-static': every path parameter spelled as "
                       "every static segment of the route table of this run (chi.Walk) and a few more (_search, _query, …), plain and as x%%2F<static>, with the route's own method "
                       "(write routes: last parameter also with POST/PUT/PATCH/DELETE; thorough: all nine methods); + ONE shared read-only router serving requests at once: every write request "
                       "with a complete safe request run in between at every touch of its response writer / body (deterministic), and a bounded stress stream (8 reader goroutines x 2 000 / 40 000 writes); non-trivial = distinct request that net/http hands to the router (not refused as malformed)") % (
                           len([m for m in methods_seen if m not in ("GET", "HEAD", "OPTIONS", "POST", "PUT", "PATCH", "DELETE", "CONNECT", "TRACE")]), n - 1)
    ctx.cov["outcomes"] = dict(sorted(oc.items()))
    ctx.cov["control_stream"] = {
        "requests_that_write_without_the_gate": would_write,
        "distinct_write_endpoints_reached": len([k for k in would_write_routes if k]),
        "write_endpoints": dict(sorted(would_write_routes.items())),
    }
    if summary:
        cls = {"".join(m.rstrip("/") for m in r["mounts"]) + r["pattern"] for r in summary["routes"] if r["writes"]}
        ctx.cov["control_stream"]["classified_write_but_never_seen_writing"] = sorted(cls - set(would_write_routes))
    ctx.cov["read_only_stream"] = {
        "write_calls_seen": len(ctx.violations),
        "rejected_by_gate": oc.get("ro:rejected", 0),
        "handlers_reached_by_method": dict(sorted(reached_ro_by_method.items())),
        "requests_that_created_a_ledger (not one of the property's writes; v1 auto-create middleware / evidence only)": ledger_creates_ro,
    }
    ctx.cov["input_distribution"] = {"methods": dict(sorted(methods_seen.items())), "mutations": dict(sorted(muts.items())),
                                     "parse": dict(collections.Counter(impl[i["id"]].get("parse") for i in reqs if i["id"] in impl))}
    ctx.cov["samples"] = [{"input": i, "impl": impl.get(i["id"])} for i in reqs[:3]]
    ctx.cov["search"] = ("the generated requests of this run on the real router with readOnly=true, each with the write calls the recording "
                         "backend saw; plus the same requests on a readOnly=false router")
    if would_write == 0 and not ctx.replay_file:
        ctx.l2_broken.append({"stream": "router-control-trivial", "detail": "no generated request reached a writer without the gate"})
    ctx.assumptions += [
        "the engine behind backend.Ledger is replaced by a recording fake: C19 is about the HTTP layer",
        "functions outside internal/api are leaves of the write call graph unless they are named like one of the four write methods",
        "a request that net/http refuses to parse never reaches a handler",
    ]
