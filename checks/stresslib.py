"""Stress stage of C11 / C07 / C10 (area `engstress`, harness/engstress.go): the reservation primitive the three properties share
(Referencer.take) has no scheduling point inside, so the deterministic scheduler of the engine stage cannot separate the steps of a
take that is no longer one test-and-set.  k goroutines released together by a spinning barrier call the REAL take with one fresh
key (exactly one may win), and the same at commander level (k simultaneous requests with one reference / one idempotency key / k
reverts of one transaction on the real Commander over an indexed in-memory store).  A bounded search: rounds x k, reported with
the processors the run had."""
from vlib.common import *
from checks import batchlib

AREA = "engstress"
KIND = {"C11": "ref", "C07": "ik", "C10": "revert"}
CLASS = {"C11": "reference-twice", "C07": "took-effect-twice", "C10": "reverted-twice"}
WHAT = {"ref": "reference", "ik": "idempotency key", "revert": "revert target"}

TRUSTED = [
    "stress stage (engstress): the overlay export VerifTake / VerifRelease (calls Referencer.take / release, nothing else); an indexed in-memory store "
    "behind one mutex; the search is bounded and depends on the processors of the machine (reported) — it finds a non-atomic reservation, it does not prove atomicity",
]


def replay_area(ctx):
    return batchlib.replay_area(ctx)


def run_stress(ctx, prop, quick_n=100, thorough_n=100):
    """Adds to ctx: violations of `prop` found by the stress stream of its kind of reservation, cov['stress']."""
    kind = KIND[prop]
    ctx.cov["trusted_base"] = list(ctx.cov.get("trusted_base") or []) + TRUSTED
    if not batchlib.harness_fresh(ctx) and not ctx.ensure_harness():
        return
    if any("engstress" in d or "verif_referencer" in d for d in HARNESS_DROPPED):
        ctx.l2_broken.append({"stream": "engstress:not-built", "detail": "the stress stream was left out of the harness build: %s" % HARNESS_DROPPED})
        return
    r = pipeline(ctx, AREA, quick_n if ctx.quick else thorough_n, extra_gen=["-arg", kind], model=False)
    if r is None:
        return
    inputs, impl, _ = r
    cov = {"rule": "k goroutines parked on a spinning barrier and released together: (take) the real Referencer.take with one fresh key per round — exactly one "
                   "gets the reservation; (commander) k simultaneous requests on the real Commander (real Referencer, DefaultLocker, Batcher / job.Runner, "
                   "indexed in-memory store) with one %s per round — one effect, one accepted request (with a key: every accepted request is answered the "
                   "one recorded transaction)" % WHAT[kind], "streams": []}
    n_eval = 0
    for inp in inputs:
        if inp.get("kind") != kind:
            continue
        out = impl.get(inp["id"]) or {}
        if "panic" in out or "error" in out or "rounds" not in out:
            ctx.l2_broken.append({"stream": "engstress:harness", "input": inp, "detail": str(out)[:600]})
            continue
        n_eval += out["rounds"]
        cov["streams"].append({"op": inp["op"], "kind": kind, "rounds": out["rounds"], "goroutines": out["k"], "gomaxprocs": out["gomaxprocs"], "numcpu": out["numcpu"],
                               "rounds_with_more_than_one_winner_or_effect": out["violations"], "effects_per_round": out["winners"], "ms": out["ms"]})
        if out["gomaxprocs"] < 2:
            ctx.notes.append("engstress: GOMAXPROCS=%s — with one processor only a preemption can separate the steps of a take; the stress stream saw little" % out["gomaxprocs"])
        if out["violations"]:
            f = out["first"][0]
            how = "simultaneous-take" if inp["op"] == "take" else "simultaneous-requests"
            if inp["op"] == "take":
                what = ("%d goroutines released together called Referencer.take with the same %s key: in %d of %d rounds the reservation was not granted exactly once "
                        "(round %s: granted %s times)") % (out["k"], WHAT[kind], out["violations"], out["rounds"], f["round"], f["winners"])
            else:
                what = ("%d simultaneous requests with one %s: in %d of %d rounds not exactly one took effect / was accepted (round %s: %s effects, answers %s, "
                        "transactions %s)") % (out["k"], WHAT[kind], out["violations"], out["rounds"], f["round"], f["winners"], f.get("answers"), f.get("txids"))
            # the replay re-runs the bounded search up to (well beyond) the round that failed first
            rounds = min(inp["rounds"], max(2000, 20 * (int(f["round"]) + 1)))
            ctx.violation({"property": prop, "class": CLASS[prop], "how": how}, what,
                          {"area": AREA, "input": {"op": inp["op"], "kind": kind, "rounds": rounds, "k": inp["k"]}, "observed": out,
                           "how": "bin/check %s --replay <this file>  (re-runs the bounded stress: verifharness engstress exec on the input line; the first failing "
                                  "round of the run that wrote this file is observed.first[0].round; needs >= 2 processors)" % prop})
    ctx.cov["stress"] = cov
    ctx.cov["evaluations"] = ctx.cov.get("evaluations", 0) + n_eval
    ctx.cov["rule"] = (ctx.cov.get("rule") or "") + "; plus the stress stage on the reservation primitive: " + cov["rule"]
    ctx.assumptions += [
        "stress stage: atomicity of Referencer.take (and of whatever else has no scheduling point inside) is SEARCHED with truly simultaneous goroutines, "
        "a bounded number of rounds on the processors of this machine (coverage.stress), not proved; the Guard theorems take 'the reservation is granted to one "
        "request at a time' from the skeleton translator's recorded body of take (a change of that body fails the translation)",
    ]
