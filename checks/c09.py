"""C09 — posting-mode transactions commit exactly the requested postings."""
import collections
from vlib.common import *

META = {
    "text": "Lean theorems about Model.TxToScript.txToScript (the model of ledger.TxToScriptData) run through Spec.run (the source-level semantics of "
            "Numscript, tied to compiler+VM by C01's differential): for EVERY list of valid postings, every metadata map and every balance table the "
            "generated script commits exactly the requested postings in order with the request metadata, or fails with insufficient funds — exactly when "
            "a replay of the postings finds a non-world source short (txToScript_correct, txToScript_accepts_iff_covered, "
            "txToScript_forced_never_insufficient, invalid_rejected). The model is tied to the code twice: the text and variable map of the real "
            "TxToScriptData are compared character by character with the model's rendering, and the outcome of the model is compared with the real "
            "commander over the in-memory store reached four ways (direct, v2 handler, v1 handler, v2 bulk element). An independent oracle checks the "
            "returned transaction and the persisted log against the request (postings, metadata, reference, timestamp) and the accept/reject decision "
            "against a replay.",
    "note": "Trusted: Lean kernel (axioms propext/Classical.choice/Quot.sound at most); Spec as the meaning of Numscript (validated against compiler+VM by "
            "C01/C08's differential, not here); the Go harness (fake backend.Ledger that forwards CreateTransaction to a real command.Commander exactly as "
            "engine.Ledger does, storage.InMemoryStore instead of PostgreSQL); reference / timestamp handling of the commander is covered by the "
            "differential and the oracle only (engine model B owns it). Sequential requests only.",
    "technique": "Lean 4 proof (induction over the posting list with a replay invariant on Spec's tracked balances; string lemmas for the value "
                 "round trip) + differential correspondence with TxToScriptData, the commander and the v1/v2/bulk handlers + replay oracle",
    "design_ref": "5 (C09), 1 (A3), appendix A",
}

PATHS = ("direct", "v2", "v1", "bulk")


def replay_ok(inp):
    """the acceptance condition of the property, computed from the request alone"""
    bal = collections.defaultdict(int)
    for a, s, v in inp["bal"]:
        bal[(a, s)] += int(v)
    for p in inp["postings"]:
        amt = int(p["amount"])
        if p["source"] != "world" and amt > 0 and bal[(p["source"], p["asset"])] < amt:
            return False
        bal[(p["source"], p["asset"])] -= amt
        bal[(p["destination"], p["asset"])] += amt
    return True


def want_tx(inp):
    return {"postings": [[p["source"], p["destination"], p["amount"], p["asset"]] for p in inp["postings"]],
            "meta": inp.get("meta") or {}, "ref": inp.get("ref") or "",
            "ts": inp["ts"] if inp.get("ts") is not None else "now"}


def posting_diff(want, got):
    if len(got) < len(want):
        return "dropped-or-merged"
    if len(got) > len(want):
        return "added-or-split"
    if sorted(map(canon, want)) == sorted(map(canon, got)):
        return "reordered"
    for w, g in zip(want, got):
        if w != g:
            if w[2:] == g[2:]:
                return "re-attributed"
            if w[:2] == g[:2] and w[3] == g[3]:
                return "amount-changed"
            if w[:3] == g[:3]:
                return "asset-changed"
            return "posting-changed"
    return "?"


def check_tx(want, got, where, path):
    v = []
    if got["postings"] != want["postings"]:
        v.append(({"class": "postings", "cause": posting_diff(want["postings"], got["postings"]), "where": where, "path": path},
                  "%s of path %s carries postings %s, the request was %s" % (where, path, got["postings"], want["postings"])))
    if got["meta"] != want["meta"]:
        v.append(({"class": "metadata", "where": where, "path": path}, "%s of path %s carries metadata %s, the request was %s" % (where, path, got["meta"], want["meta"])))
    if got["ref"] != want["ref"]:
        v.append(({"class": "reference", "where": where, "path": path}, "%s of path %s carries reference %r, the request was %r" % (where, path, got["ref"], want["ref"])))
    if got["ts"] != want["ts"]:
        v.append(({"class": "timestamp", "where": where, "path": path, "supplied": want["ts"] != "now"},
                  "%s of path %s carries timestamp %s, the request was %s" % (where, path, got["ts"], want["ts"])))
    return v


def oracle(inp, out):
    """the property itself on what the implementation did; list of (signature, description)"""
    v = []
    valid = inp["kind"] == "valid"
    for path in PATHS:
        r = out.get(path)
        if r is None or "panic" in r:
            v.append(({"class": "panic", "path": path}, "path %s: %s" % (path, r)))
            continue
        accepted = "tx" in r
        if not accepted and r.get("err") not in ("insufficient_funds", "rejected"):
            v.append(({"class": "unreadable-answer", "path": path}, "path %s answered %s" % (path, r)))
            continue
        if not accepted:
            # rejected as a whole: no trace in the store
            if r.get("newlogs") != 0 or "log" in r:
                v.append(({"class": "partial", "path": path}, "path %s refused the request (%s) but the store has %s new log(s)" % (path, r.get("detail"), r.get("newlogs"))))
        if not valid:
            if accepted:
                v.append(({"class": "invalid-accepted", "kind": inp["kind"], "path": path}, "path %s committed a request with %s: %s" % (path, inp["kind"], r["tx"])))
            elif r["err"] == "insufficient_funds" and inp["kind"] != "valid":
                # a malformed request may be told anything, as long as it is refused; nothing to flag
                pass
            continue
        ok = replay_ok(inp)
        if ok and not accepted:
            v.append(({"class": "spurious-reject", "answer": r.get("err"), "path": path}, "path %s refused (%s/%s) a request whose replay never runs short" % (path, r.get("err"), r.get("detail"))))
        elif not ok and accepted:
            v.append(({"class": "overdraft-accepted", "path": path}, "path %s committed a request whose replay finds a source short" % path))
        elif not ok and r["err"] != "insufficient_funds":
            v.append(({"class": "wrong-refusal", "answer": r.get("detail"), "path": path}, "path %s refused with %s instead of insufficient funds" % (path, r.get("detail"))))
        if accepted:
            want = want_tx(inp)
            v += check_tx(want, r["tx"], "returned transaction", path)
            if r.get("newlogs") != 1 or "log" not in r:
                v.append(({"class": "log-count", "path": path}, "path %s: %s new logs for one committed request" % (path, r.get("newlogs"))))
            else:
                v += check_tx(want, r["log"], "persisted log", path)
    # the script on its own: one send per posting, the variable values are exactly the accounts / amounts of the request
    if valid and isinstance(out.get("script"), str):
        for key, vk in (("script", "vars"), ("scriptF", "varsF")):
            text, vs = out[key], out[vk]
            if text.count("send ") != len(inp["postings"]):
                v.append(({"class": "script-shape", "what": "send-count"}, "%d sends for %d postings" % (text.count("send "), len(inp["postings"]))))
            accts = {a for p in inp["postings"] for a in (p["source"], p["destination"]) if a != "world"}
            mons = {"%s %s" % (p["asset"], p["amount"]) for p in inp["postings"]}
            got_a = sorted(x for k, x in vs.items() if k.startswith("va"))
            got_m = sorted(x for k, x in vs.items() if k.startswith("vm"))
            if got_a != sorted(accts) or got_m != sorted(mons):
                v.append(({"class": "script-shape", "what": "variables"}, "variables %s do not name exactly the accounts %s and amounts %s" % (vs, sorted(accts), sorted(mons))))
    return v


def features(inp):
    f = set()
    ps = inp["postings"]
    accts = [a for p in ps for a in (p["source"], p["destination"])]
    nonworld = [a for a in accts if a != "world"]
    if len(set(nonworld)) < len(nonworld):
        f.add("repeated-account")
    amts = [(p["amount"], p["asset"]) for p in ps]
    if len(set(amts)) < len(amts):
        f.add("repeated-amount")
    seen_dst = set()
    for p in ps:
        if p["source"] != "world" and (p["source"], p["asset"]) in seen_dst:
            f.add("chain")
        seen_dst.add((p["destination"], p["asset"]))
        if p["source"] == p["destination"]:
            f.add("self-transfer")
        if p["source"] == "world":
            f.add("world-source")
        if p["destination"] == "world":
            f.add("world-destination")
        if p["source"] == "world" and p["destination"] == "world":
            f.add("world-both")
        if p["amount"] == "0":
            f.add("zero-amount")
        elif p["amount"] is not None and len(p["amount"]) > 19:
            f.add("over-64-bit")
        if "/" in (p["asset"] or ""):
            f.add("asset-precision")
    if len(set(nonworld)) >= 11:
        f.add("va10-before-va2")
    if len({p["asset"] for p in ps}) > 1:
        f.add("two-assets")
    if any(int(b[2]) < 0 for b in inp["bal"]):
        f.add("negative-start")
    return f


def proj(r):
    if r is None:
        return None
    if "panic" in r:
        return {"panic": r["panic"]}
    if "tx" in r:
        return {"postings": r["tx"]["postings"], "meta": r["tx"]["meta"]}
    return {"err": r.get("err")}


def run(ctx):
    ctx.cov["trusted_base"] = [
        "Lean 4.33 kernel; axioms allowed: propext, Classical.choice, Quot.sound",
        "Model.Numscript.Spec as the meaning of the generated script (tied to compiler+VM by C01/C08's differential); here it is tied end to end "
        "to the commander for the scripts TxToScriptData produces",
        "Go harness: real ledger.TxToScriptData, real command.Commander over storage.InMemoryStore, real v1/v2 routers and ProcessBulk over a "
        "backend.Ledger that forwards CreateTransaction to the commander (as engine.Ledger does); PostgreSQL store not exercised",
        "math/big modelled by Lean Int; Go maps modelled by association lists (the code sorts the names it prints)",
    ]
    ctx.l1()
    if not (ctx.ensure_driver() and ctx.ensure_harness()):
        return
    n = 1500 if ctx.quick else 40000
    r = pipeline(ctx, "txscript", n)
    if r is None:
        return
    inputs, impl, model = r
    # L2a: the function on its own, character by character
    compare(ctx, "txscript:text+vars", inputs, impl, model,
            proj_impl=lambda i, o: {k: o.get(k) for k in ("script", "vars", "scriptF", "varsF")} if "panic" not in o else o,
            proj_model=lambda i, o: {k: o.get(k) for k in ("script", "vars", "scriptF", "varsF")} if "driver_error" not in o else o)
    # L2b: the outcome, four ways into the engine
    for path, mkey in (("direct", "v2"), ("v2", "v2"), ("bulk", "v2"), ("v1", "v1")):
        compare(ctx, "txscript:outcome-" + path, inputs, impl, model,
                proj_impl=lambda i, o, path=path: proj(o.get(path)) if "panic" not in o else o,
                proj_model=lambda i, o, mkey=mkey: o.get(mkey) if "driver_error" not in o else o)
    seen, nontrivial = set(), 0
    feats, outcomes, kinds, sizes = collections.Counter(), collections.Counter(), collections.Counter(), collections.Counter()
    fivexx = collections.Counter()   # refusals answered as internal errors (not a C09 matter, reported for information)
    for inp in inputs:
        out = impl.get(inp["id"])
        if out is None:
            continue
        if "panic" in out:
            ctx.violation({"property": "C09", "class": "panic", "path": "harness"}, "harness case panicked: %s" % out["panic"],
                          {"area": "txscript", "input": inp, "observed": out})
            continue
        for sig, what in oracle(inp, out):
            ctx.violation(dict(sig, property="C09"), what, {"area": "txscript", "input": inp, "observed": out})
        kinds[inp["kind"]] += 1
        for path in PATHS:
            st = out.get(path, {}).get("status")
            if isinstance(st, int) and st >= 500:
                fivexx["%s/%s" % (path, inp["kind"])] += 1
        sizes[len(inp["postings"])] += 1
        d = out.get("direct", {})
        outcomes["ok" if "tx" in d else d.get("err", "?") + ":" + str(d.get("detail"))] += 1
        if inp["kind"] != "valid":
            continue
        f = features(inp)
        for x in f:
            feats[x] += 1
        h = shash({k: v for k, v in inp.items() if k not in ("id", "corpus")})
        if h not in seen and f & {"repeated-account", "repeated-amount", "chain"}:
            nontrivial += 1
        seen.add(h)
    ctx.cov["evaluations"] = len(inputs) * len(PATHS)
    ctx.cov["requests"] = len(inputs)
    ctx.cov["distinct_nontrivial"] = nontrivial
    ctx.cov["rule"] = ("random posting lists (1..%d postings over a pool of 2-5 or 11-15 accounts incl. world, 1-3 repeating amounts incl. 0 / 2^64±1 / 2^70, "
                       "1-2 assets incl. /precision; chains, fan-in/out, self-transfers) with balance tables derived from the amounts (exactly enough / one "
                       "short / surplus / empty / already negative), metadata, reference and timestamp present or absent; 15%% malformed (negative or "
                       "missing amount, invalid address, invalid asset, no posting); every request goes through 4 paths; non-trivial = distinct valid "
                       "request with a repeated account, a repeated amount or a chain") % (12 if ctx.quick else 30)
    ctx.cov["samples"] = [{"input": i, "impl": {p: proj(impl.get(i["id"], {}).get(p)) for p in PATHS}} for i in inputs[:2]]
    ctx.cov["input_distribution"] = {"kinds": dict(kinds), "features_of_valid": dict(feats), "outcome_direct": dict(outcomes),
                                     "refused_with_5xx": dict(fivexx),
                                     "postings_per_request": {str(k): v for k, v in sorted(sizes.items())}}
    ctx.assumptions += [
        "requests are submitted one at a time, never as dry runs (known engine defects on those paths are tracked under C02/C14/C16)",
        "the persisted log is the one held by storage.InMemoryStore; the SQL store's encoding is C13's business",
    ]
