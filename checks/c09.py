"""C09 — posting-mode transactions commit exactly the requested postings."""
import collections
from vlib.common import *

META = {
    "text": "Lean theorems about Model.TxToScript.txToScript (the model of ledger.TxToScriptData) run through Spec.run (the source-level semantics of "
            "Numscript, tied to compiler+VM by C01's differential): for EVERY list of valid postings, every metadata map and every balance table the "
            "generated script commits exactly the requested postings in order with the request metadata, or fails with insufficient funds — exactly when "
            "a replay of the postings finds a non-world source short (txToScript_correct, txToScript_accepts_iff_covered, "
            "txToScript_forced_never_insufficient, invalid_rejected). The model is tied to the code twice: the text and variable map of the real "
            "TxToScriptData are compared character by character with the model's rendering, and the outcome of the model is compared with the real "
            "commander over the in-memory store reached four ways (direct, v2 handler, v1 handler, v2 bulk element). An independent oracle checks the "
            "returned transaction and the persisted log against the request (postings, metadata, reference, timestamp) and the accept/reject decision "
            "against a replay. A second stream submits bulks of 1-4 elements (posting-mode creates with independently present/absent metadata, "
            "reference and timestamp, next to script creates, reverts, metadata writes, unknown and undecodable elements) to the real ProcessBulk over "
            "the same commander: every committed transaction (answer and log, captured when it is inserted) is held against ITS OWN element, the "
            "accept/reject decision of each element against a replay on the balances left by the elements before it, and the outcome of each element "
            "against the Lean model run on those balances. Posting lists are biased towards near-collisions of the textual encodings of a monetary "
            "(asset||amount cut at different points, prefix assets, suffix amounts). A third stream (area txseq) submits SEQUENCES of posting lists to ONE commander "
            "(one compilation cache), directly and through the v2 handler: TxToScriptData's text depends only on the shape of a list, so whatever is kept between two "
            "requests under a key derived from the text must not hand the later request the earlier one's program - the stored pairs of corpus/nscache (different shapes over "
            "the same variables whose texts collide under CRC-32 IEEE / Castagnoli, FNV-1 / FNV-1a 32, Adler-32, the 31- and 33-multiplier string hashes, 4-byte truncations "
            "of SHA-256 / MD5 / SHA-1; found by tools/collide through the real function) as A-then-B and B-then-A, plus random sequences of 2-4 lists over one pool; every "
            "committed transaction is held against its own request on the balances left by the requests before it. References and metadata keys / values carry NUL, "
            "C0 controls, DEL, NEL, no-break space, line / paragraph separators, BOM, zero-width space (and pairs of keys differing only by one) in a fifth of the requests, "
            "on every path and in script-mode bulk elements (request metadata and reference judged): the engine must commit them as supplied or refuse the request.",
    "note": "Trusted: Lean kernel (axioms propext/Classical.choice/Quot.sound at most); Spec as the meaning of Numscript (validated against compiler+VM by "
            "C01/C08's differential, not here); the Go harness (fake backend.Ledger that forwards CreateTransaction to a real command.Commander exactly as "
            "engine.Ledger does, storage.InMemoryStore instead of PostgreSQL); reference / timestamp handling of the commander is covered by the "
            "differential and the oracle only (engine model B owns it). Sequential requests only. The weak-key pairs are a corpus of KNOWN-weak digests, not a proof "
            "that every weak cache key is caught (a 64-bit checksum or a keyed hash has no stored pair); when TxToScriptData's text format changes the stored pairs "
            "stop colliding (the evidence counts stale pairs; tools/collide/find rebuilds them).",
    "technique": "Lean 4 proof (induction over the posting list with a replay invariant on Spec's tracked balances; string lemmas for the value "
                 "round trip) + differential correspondence with TxToScriptData, the commander and the v1/v2/bulk handlers + replay oracle",
    "design_ref": "5 (C09), 1 (A3), appendix A",
}

PATHS = ("direct", "v2", "v1", "bulk")


def table(triples):
    bal = collections.defaultdict(int)
    for a, s, v in triples:
        bal[(a, s)] += int(v)
    return bal


def replay(postings, bal):
    """the acceptance condition of the property: every posting, in order, finds its amount on its source; bal is updated"""
    for p in postings:
        amt = int(p["amount"])
        if p["source"] != "world" and amt > 0 and bal[(p["source"], p["asset"])] < amt:
            return False
        bal[(p["source"], p["asset"])] -= amt
        bal[(p["destination"], p["asset"])] += amt
    return True


def replay_ok(inp):
    """… computed from the request alone"""
    return replay(inp["postings"], table(inp["bal"]))


def want_tx(inp):
    return {"postings": [[p["source"], p["destination"], p["amount"], p["asset"]] for p in inp["postings"]],
            "meta": inp.get("meta") or {}, "ref": inp.get("ref") or "",
            "ts": inp["ts"] if inp.get("ts") is not None else "now"}


def posting_diff(want, got):
    if len(got) < len(want):
        return "dropped-or-merged"
    if len(got) > len(want):
        return "added-or-split"
    if sorted(map(canon, want)) == sorted(map(canon, got)):
        return "reordered"
    for w, g in zip(want, got):
        if w != g:
            if w[2:] == g[2:]:
                return "re-attributed"
            if w[:2] == g[:2] and w[3] == g[3]:
                return "amount-changed"
            if w[:3] == g[:3]:
                return "asset-changed"
            return "posting-changed"
    return "?"


def check_tx(want, got, where, path):
    v = []
    if got["postings"] != want["postings"]:
        v.append(({"class": "postings", "cause": posting_diff(want["postings"], got["postings"]), "where": where, "path": path},
                  "%s of path %s carries postings %s, the request was %s" % (where, path, got["postings"], want["postings"])))
    if got["meta"] != want["meta"]:
        v.append(({"class": "metadata", "where": where, "path": path}, "%s of path %s carries metadata %s, the request was %s" % (where, path, got["meta"], want["meta"])))
    if got["ref"] != want["ref"]:
        v.append(({"class": "reference", "where": where, "path": path}, "%s of path %s carries reference %r, the request was %r" % (where, path, got["ref"], want["ref"])))
    if got["ts"] != want["ts"]:
        v.append(({"class": "timestamp", "where": where, "path": path, "supplied": want["ts"] != "now"},
                  "%s of path %s carries timestamp %s, the request was %s" % (where, path, got["ts"], want["ts"])))
    return v


def oracle(inp, out):
    """the property itself on what the implementation did; list of (signature, description)"""
    v = []
    valid = inp["kind"] == "valid"
    for path in PATHS:
        r = out.get(path)
        if r is None or "panic" in r:
            v.append(({"class": "panic", "path": path}, "path %s: %s" % (path, r)))
            continue
        accepted = "tx" in r
        if not accepted and r.get("err") not in ("insufficient_funds", "rejected"):
            v.append(({"class": "unreadable-answer", "path": path}, "path %s answered %s" % (path, r)))
            continue
        if not accepted:
            # rejected as a whole: no trace in the store
            if r.get("newlogs") != 0 or "log" in r:
                v.append(({"class": "partial", "path": path}, "path %s refused the request (%s) but the store has %s new log(s)" % (path, r.get("detail"), r.get("newlogs"))))
        if not valid:
            if accepted:
                v.append(({"class": "invalid-accepted", "kind": inp["kind"], "path": path}, "path %s committed a request with %s: %s" % (path, inp["kind"], r["tx"])))
            elif r["err"] == "insufficient_funds" and inp["kind"] != "valid":
                # a malformed request may be told anything, as long as it is refused; nothing to flag
                pass
            continue
        ok = replay_ok(inp)
        if ok and not accepted:
            v.append(({"class": "spurious-reject", "answer": r.get("err"), "path": path}, "path %s refused (%s/%s) a request whose replay never runs short" % (path, r.get("err"), r.get("detail"))))
        elif not ok and accepted:
            v.append(({"class": "overdraft-accepted", "path": path}, "path %s committed a request whose replay finds a source short" % path))
        elif not ok and r["err"] != "insufficient_funds":
            v.append(({"class": "wrong-refusal", "answer": r.get("detail"), "path": path}, "path %s refused with %s instead of insufficient funds" % (path, r.get("detail"))))
        if accepted:
            want = want_tx(inp)
            v += check_tx(want, r["tx"], "returned transaction", path)
            if r.get("newlogs") != 1 or "log" not in r:
                v.append(({"class": "log-count", "path": path}, "path %s: %s new logs for one committed request" % (path, r.get("newlogs"))))
            else:
                v += check_tx(want, r["log"], "persisted log", path)
    # the script on its own: one send per posting, the variable values are exactly the accounts / amounts of the request
    if valid and isinstance(out.get("script"), str):
        for key, vk in (("script", "vars"), ("scriptF", "varsF")):
            text, vs = out[key], out[vk]
            if text.count("send ") != len(inp["postings"]):
                v.append(({"class": "script-shape", "what": "send-count"}, "%d sends for %d postings" % (text.count("send "), len(inp["postings"]))))
            accts = {a for p in inp["postings"] for a in (p["source"], p["destination"]) if a != "world"}
            mons = {"%s %s" % (p["asset"], p["amount"]) for p in inp["postings"]}
            got_a = sorted(x for k, x in vs.items() if k.startswith("va"))
            got_m = sorted(x for k, x in vs.items() if k.startswith("vm"))
            if got_a != sorted(accts) or got_m != sorted(mons):
                v.append(({"class": "script-shape", "what": "variables"}, "variables %s do not name exactly the accounts %s and amounts %s" % (vs, sorted(accts), sorted(mons))))
    return v


LOG_OF = {"CREATE_TRANSACTION": "NEW_TRANSACTION", "REVERT_TRANSACTION": "REVERTED_TRANSACTION",
          "ADD_METADATA": "SET_METADATA", "DELETE_METADATA": "DELETE_METADATA"}


def judged(el):
    return el.get("action") == "CREATE_TRANSACTION" and el.get("mode") == "postings"


def bulk_oracle(inp, out):
    """the property on a whole bulk: (violations, per-element inputs for the model, facts for the coverage report).

    State carried from element to element: the balances and references the STORE holds (pre-loaded table plus the
    transactions of the logs seen so far).  results[i] answers elements[i]; the k-th successful element owns the k-th
    new log.  Elements other than posting-mode creates are not judged (C18 / C02 own them): what they left in the store
    is taken as it is."""
    v, derived, facts = [], [], collections.Counter()
    els, res, logs = inp["elements"], out.get("results"), out.get("logs")
    if res is None or logs is None:
        return [({"class": "unreadable-answer", "path": "bulkN"}, "the bulk answered %s" % canon(out)[:300])], derived, facts
    bal, refs = table(inp["bal"]), set()
    li, stopped, first_create = 0, False, True
    for i, el in enumerate(els):
        if i >= len(res):
            if not stopped:
                v.append(({"class": "unreadable-answer", "path": "bulkN", "what": "missing-result"}, "element %d has no result although no element before it failed" % i))
                stopped = True
            continue
        r = res[i]
        ok = "err" not in r
        if not ok and not inp["continue"]:
            stopped = True
        log = None
        if ok:
            if li < len(logs):
                log = logs[li]
            li += 1
        if not judged(el):
            facts["other:" + ("ok" if ok else "refused")] += 1
            if ok and (log is None or log.get("type") != LOG_OF.get(r.get("type"))):
                v.append(({"class": "log-count", "path": "bulkN", "element": "other"},
                          "element %d (%s) succeeded as %s, the log inserted for it is %s" % (i, el.get("action"), r.get("type"), log)))
            if el.get("action") == "CREATE_TRANSACTION" and el.get("mode") == "script" and ok:
                # script mode with request metadata / reference: the script (literal sends) sets no metadata of its own, so what is
                # committed must carry the request's metadata and reference as supplied — the same `exec` serves posting mode
                facts["script:request-fields-checked"] += 1
                want = want_tx(el)
                for where, got in (("returned transaction", r.get("tx")), ("persisted log", (log or {}).get("tx"))):
                    if got is None:
                        continue
                    for sig, what in check_tx(want, got, where, "bulkN"):
                        if sig["class"] in ("metadata", "reference"):
                            v.append((dict(sig, mode="script"), "element %d of %d (script mode): %s" % (i, len(els), what)))
            if log is not None and "tx" in log:   # a script / revert transaction: part of the state the next elements meet
                for s_, d_, a_, as_ in log["tx"]["postings"]:
                    bal[(s_, as_)] -= int(a_)
                    bal[(d_, as_)] += int(a_)
                if log["tx"]["ref"]:
                    refs.add(log["tx"]["ref"])
            continue
        pos = "first" if first_create else "later"
        first_create = False
        path = "bulkN"
        valid = el["kind"] == "valid"
        dup = el["ref"] != "" and el["ref"] in refs
        before = [[a, s_, str(x)] for (a, s_), x in sorted(bal.items()) if x != 0 and a != "world"]
        trial = collections.defaultdict(int, bal)
        covered = valid and replay(el["postings"], trial)
        facts["create:" + ("accepted" if ok else "dup-ref" if dup else "invalid" if not valid else "short" if not covered else "refused?")] += 1
        if not dup:
            derived.append((i, {"postings": el["postings"], "bal": before, "meta": el.get("meta") or {}, "kind": el["kind"]},
                            {"postings": r["tx"]["postings"], "meta": r["tx"]["meta"]} if ok and "tx" in r else {"err": r.get("err")}))
        if not ok:
            if valid and not dup:
                if covered:
                    v.append(({"class": "spurious-reject", "answer": r.get("err"), "path": path, "element": pos},
                              "element %d refused (%s/%s) although its replay on the balances left by the elements before it never runs short and its reference %r is free"
                              % (i, r.get("err"), r.get("detail"), el["ref"])))
                elif r.get("err") != "insufficient_funds":
                    v.append(({"class": "wrong-refusal", "answer": r.get("detail"), "path": path, "element": pos}, "element %d refused with %s instead of insufficient funds" % (i, r.get("detail"))))
            continue
        if not valid:
            v.append(({"class": "invalid-accepted", "kind": el["kind"], "path": path}, "element %d committed a request with %s: %s" % (i, el["kind"], r.get("tx"))))
        elif not covered and not dup:
            v.append(({"class": "overdraft-accepted", "path": path, "element": pos}, "element %d committed although its replay finds a source short" % i))
        if valid:
            want = want_tx(el)
            for where, got in (("returned transaction", r.get("tx")), ("persisted log", (log or {}).get("tx") if (log or {}).get("type") == "NEW_TRANSACTION" else None)):
                if got is None:
                    v.append(({"class": "log-count", "path": path, "where": where, "element": pos}, "element %d succeeded, its %s is missing (result %s, log %s)" % (i, where, r, log)))
                    continue
                for sig, what in check_tx(want, got, where, path):
                    v.append((dict(sig, element=pos), "element %d of %d: %s" % (i, len(els), what)))
            if log and "tx" in log and r.get("tx") and log["tx"]["id"] != r["tx"]["id"]:
                v.append(({"class": "log-count", "path": path, "what": "id"}, "element %d answered transaction %s, its log holds transaction %s" % (i, r["tx"]["id"], log["tx"]["id"])))
        # the state the next element meets is what the store holds
        held = log["tx"] if log and "tx" in log else r.get("tx") or {"postings": [], "ref": ""}
        for s_, d_, a_, as_ in held["postings"]:
            if a_.lstrip("-").isdigit():
                bal[(s_, as_)] -= int(a_)
                bal[(d_, as_)] += int(a_)
        if held["ref"]:
            refs.add(held["ref"])
    if li < len(logs) or (li > len(logs) and not v):
        v.append(({"class": "partial", "path": "bulkN"}, "%d element(s) succeeded, the store received %d log(s): %s" % (li, len(logs), logs[li:] or res)))
    return v, derived, facts


def bulk_features(inp):
    """what makes a bulk interesting for the property"""
    f = set()
    cs = [e for e in inp["elements"] if judged(e)]
    if len(cs) >= 2:
        f.add("two-creates")
    if len(cs) < len(inp["elements"]) and cs:
        f.add("mixed-actions")
    for k, e in enumerate(cs):
        for d in cs[:k]:
            if d["ts"] is not None and e["ts"] is None:
                f.add("later-omits-timestamp")
            if d["ref"] and not e["ref"]:
                f.add("later-omits-reference")
            if set(d.get("meta") or {}) - set(e.get("meta") or {}):
                f.add("later-omits-metadata-key")
            if d.get("meta") and e.get("meta") is None:
                f.add("later-omits-metadata")
            if e["ref"] and e["ref"] == d["ref"]:
                f.add("same-reference")
            if e["ts"] is not None and e["ts"] == d["ts"]:
                f.add("same-timestamp")
    for e in cs:
        if e["kind"] == "valid":
            f |= {"tx:" + x for x in features({"postings": e["postings"], "bal": []}) if x in ("concat-collision", "repeated-amount", "prefix-asset", "chain")}
    return f


def features(inp):
    f = set()
    ps = inp["postings"]
    mons = {(p["asset"], p["amount"]) for p in ps if p["asset"] is not None and p["amount"] is not None}
    texts = collections.Counter(a + n for a, n in mons)
    if any(c > 1 for c in texts.values()):
        f.add("concat-collision")      # two different monetaries whose asset||amount texts are equal
    assets = {a for a, _ in mons}
    if any(a != b and b.startswith(a) and b[len(a):].isdigit() for a in assets for b in assets):
        f.add("prefix-asset")
    amounts = {n for _, n in mons}
    if any(a != b and (b.endswith(a) or b.startswith(a)) for a in amounts for b in amounts):
        f.add("affix-amount")
    if len({n for _, n in mons}) < len(mons):
        f.add("same-amount-other-asset")
    if len({a for a, _ in mons}) < len(mons):
        f.add("same-asset-other-amount")
    accts = [a for p in ps for a in (p["source"], p["destination"])]
    nonworld = [a for a in accts if a != "world"]
    if len(set(nonworld)) < len(nonworld):
        f.add("repeated-account")
    amts = [(p["amount"], p["asset"]) for p in ps]
    if len(set(amts)) < len(amts):
        f.add("repeated-amount")
    seen_dst = set()
    for p in ps:
        if p["source"] != "world" and (p["source"], p["asset"]) in seen_dst:
            f.add("chain")
        seen_dst.add((p["destination"], p["asset"]))
        if p["source"] == p["destination"]:
            f.add("self-transfer")
        if p["source"] == "world":
            f.add("world-source")
        if p["destination"] == "world":
            f.add("world-destination")
        if p["source"] == "world" and p["destination"] == "world":
            f.add("world-both")
        if p["amount"] == "0":
            f.add("zero-amount")
        elif p["amount"] is not None and len(p["amount"]) > 19:
            f.add("over-64-bit")
        if "/" in (p["asset"] or ""):
            f.add("asset-precision")
    if len(set(nonworld)) >= 11:
        f.add("va10-before-va2")
    if len({p["asset"] for p in ps}) > 1:
        f.add("two-assets")
    if any(int(b[2]) < 0 for b in inp["bal"]):
        f.add("negative-start")
    return f


def proj(r):
    if r is None:
        return None
    if "panic" in r:
        return {"panic": r["panic"]}
    if "tx" in r:
        return {"postings": r["tx"]["postings"], "meta": r["tx"]["meta"]}
    return {"err": r.get("err")}


def run_txscript(ctx):
    n = 1500 if ctx.quick else 40000
    r = pipeline(ctx, "txscript", n)
    if r is None:
        return
    inputs, impl, model = r
    # L2a: the function on its own, character by character
    compare(ctx, "txscript:text+vars", inputs, impl, model,
            proj_impl=lambda i, o: {k: o.get(k) for k in ("script", "vars", "scriptF", "varsF")} if "panic" not in o else o,
            proj_model=lambda i, o: {k: o.get(k) for k in ("script", "vars", "scriptF", "varsF")} if "driver_error" not in o else o)
    # L2b: the outcome, four ways into the engine
    for path, mkey in (("direct", "v2"), ("v2", "v2"), ("bulk", "v2"), ("v1", "v1")):
        compare(ctx, "txscript:outcome-" + path, inputs, impl, model,
                proj_impl=lambda i, o, path=path: proj(o.get(path)) if "panic" not in o else o,
                proj_model=lambda i, o, mkey=mkey: o.get(mkey) if "driver_error" not in o else o)
    seen, nontrivial = set(), 0
    feats, outcomes, kinds, sizes = collections.Counter(), collections.Counter(), collections.Counter(), collections.Counter()
    fivexx = collections.Counter()   # refusals answered as internal errors (not a C09 matter, reported for information)
    for inp in inputs:
        out = impl.get(inp["id"])
        if out is None:
            continue
        if "panic" in out:
            ctx.violation({"property": "C09", "class": "panic", "path": "harness"}, "harness case panicked: %s" % out["panic"],
                          {"area": "txscript", "input": inp, "observed": out})
            continue
        for sig, what in oracle(inp, out):
            ctx.violation(dict(sig, property="C09"), what, {"area": "txscript", "input": inp, "observed": out})
        kinds[inp["kind"]] += 1
        for path in PATHS:
            st = out.get(path, {}).get("status")
            if isinstance(st, int) and st >= 500:
                fivexx["%s/%s" % (path, inp["kind"])] += 1
        sizes[len(inp["postings"])] += 1
        d = out.get("direct", {})
        outcomes["ok" if "tx" in d else d.get("err", "?") + ":" + str(d.get("detail"))] += 1
        if inp["kind"] != "valid":
            continue
        f = features(inp)
        for x in f:
            feats[x] += 1
        h = shash({k: v for k, v in inp.items() if k not in ("id", "corpus")})
        if h not in seen and f & {"repeated-account", "repeated-amount", "chain", "concat-collision"}:
            nontrivial += 1
        seen.add(h)
    ctx.cov["evaluations"] += len(inputs) * len(PATHS)
    ctx.cov["requests"] = len(inputs)
    ctx.cov["distinct_nontrivial"] += nontrivial
    ctx.cov["samples"] += [{"input": i, "impl": {p: proj(impl.get(i["id"], {}).get(p)) for p in PATHS}} for i in inputs[:2]]
    ctx.cov["input_distribution"]["txscript"] = {
        "kinds": dict(kinds), "features_of_valid": dict(feats), "outcome_direct": dict(outcomes), "refused_with_5xx": dict(fivexx),
        "postings_per_request": {str(k): v for k, v in sorted(sizes.items())}}


def run_txbulk(ctx):
    n = 2500 if ctx.quick else 40000
    r = pipeline(ctx, "txbulk", n, model=False)
    if r is None:
        return
    inputs, impl, _ = r
    feats, facts, sizes, actions = collections.Counter(), collections.Counter(), collections.Counter(), collections.Counter()
    seen, nontrivial, elements = set(), 0, 0
    rows, observed = [], {}      # per-element requests for the Lean model: the element on the balances the store held before it
    for inp in inputs:
        out = impl.get(inp["id"])
        if out is None:
            continue
        if "panic" in out:
            ctx.violation({"property": "C09", "class": "panic", "path": "bulkN"}, "bulk case panicked: %s" % out["panic"],
                          {"area": "txbulk", "input": inp, "observed": out})
            continue
        v, derived, fc = bulk_oracle(inp, out)
        for sig, what in v:
            ctx.violation(dict(sig, property="C09"), what, {"area": "txbulk", "input": inp, "observed": out})
        for k, row, obs in derived:
            rid = len(rows)
            rows.append(dict(row, id=rid))
            observed[rid] = (inp, k, obs)
        facts.update(fc)
        sizes[len(inp["elements"])] += 1
        elements += len(inp["elements"])
        for e in inp["elements"]:
            actions[(e.get("action") or "<empty>") + ("/" + e["mode"] if "mode" in e else "")] += 1
        f = bulk_features(inp)
        for x in f:
            feats[x] += 1
        h = shash({k: v for k, v in inp.items() if k not in ("id", "corpus")})
        if h not in seen and "two-creates" in f:
            nontrivial += 1
        seen.add(h)
    # L2: every posting-mode element against the model, on the balances left by the elements before it
    stream, bad = "txbulk:outcome-element", 0
    if rows:
        inf, outf = ctx.path("txbulk.elements.in.jsonl"), ctx.path("txbulk.elements.model.jsonl")
        write_jsonl(inf, rows)
        p = run_driver("txscript", inf, outf)
        if p.returncode != 0:
            ctx.l2_broken.append({"stream": "txbulk-driver", "detail": (p.stdout + p.stderr)[-2000:]})
        else:
            model = {r["id"]: r["out"] for r in read_jsonl(outf)}
            for row in rows:
                inp, k, obs = observed[row["id"]]
                m = model.get(row["id"], {}).get("v2")
                if m is None or canon(m) != canon(obs):
                    bad += 1
                    if bad <= 5:
                        ctx.l2_broken.append({"stream": stream, "id": inp["id"], "element": k, "input": inp, "impl": obs, "model": m})
    ctx.cov.setdefault("disagreements", {})[stream] = bad
    ctx.cov.setdefault("compared", {})[stream] = len(rows)
    ctx.cov["evaluations"] += elements
    ctx.cov["bulks"] = len(inputs)
    ctx.cov["distinct_nontrivial"] += nontrivial
    ctx.cov["samples"] += [{"input": i, "impl": impl.get(i["id"])} for i in inputs[:1]]
    ctx.cov["input_distribution"]["txbulk"] = {
        "elements_per_bulk": {str(k): v for k, v in sorted(sizes.items())}, "actions": dict(actions),
        "features": dict(feats), "elements_by_outcome": dict(facts)}


def seq_from_corpus():
    """the pairs of corpus/nscache ("lists": two posting lists whose TxToScriptData texts collide under a weak 32-bit digest) as
    sequences for ONE commander: A then B, and B then A; balances cover the whole sequence"""
    rows = []
    for line in corpus_inputs("nscache"):
        lists = line.get("lists")
        if not lists or line.get("force"):
            continue
        for order in ((0, 1), (1, 0)):
            seq = [lists[k] for k in order]
            need = collections.OrderedDict()
            for ps in seq:
                for p in ps:
                    if p["source"] != "world":
                        need[(p["source"], p["asset"])] = need.get((p["source"], p["asset"]), 0) + int(p["amount"])
            rows.append({"bal": [[a, x, str(v)] for (a, x), v in need.items() if v],
                         "requests": [{"postings": ps, "kind": "valid", "meta": {"order": "o-%d" % k}, "ref": "", "ts": None, "tz": 0} for k, ps in enumerate(seq)],
                         "corpus": True, "family": line.get("family"), "digest": line.get("digest"), "key": line.get("key"),
                         "texts": [line["texts"][k] for k in order]})
    return rows


def seq_oracle(inp, out):
    """the property on a sequence of requests submitted to one commander: every request, in turn, on the balances and references the
    requests before it left"""
    v = []
    for path in ("direct", "v2"):
        res = out.get(path)
        if not isinstance(res, list) or len(res) != len(inp["requests"]) or any("panic" in r for r in res):
            v.append(({"class": "panic" if isinstance(res, list) and any("panic" in r for r in res) else "unreadable-answer", "path": path + "-seq"},
                      "path %s answered %s" % (path, canon(res)[:300])))
            continue
        bal, refs = table(inp["bal"]), set()
        for k, (rq, r) in enumerate(zip(inp["requests"], res)):
            pos = "first" if k == 0 else "later"
            accepted = "tx" in r
            dup = bool(rq.get("ref")) and rq["ref"] in refs
            trial = collections.defaultdict(int, bal)
            covered = rq["kind"] == "valid" and replay(rq["postings"], trial)
            if not accepted:
                if r.get("newlogs") != 0 or "log" in r:
                    v.append(({"class": "partial", "path": path + "-seq", "position": pos}, "request %d refused (%s), the store has %s new log(s)" % (k, r.get("detail"), r.get("newlogs"))))
                if covered and not dup:
                    v.append(({"class": "spurious-reject", "answer": r.get("err"), "path": path + "-seq", "position": pos},
                              "request %d of the sequence refused (%s/%s) although its replay on the balances left by the requests before it never runs short" % (
                                  k, r.get("err"), r.get("detail"))))
                elif not covered and not dup and rq["kind"] == "valid" and r.get("err") != "insufficient_funds":
                    v.append(({"class": "wrong-refusal", "answer": r.get("detail"), "path": path + "-seq", "position": pos}, "request %d refused with %s instead of insufficient funds" % (k, r.get("detail"))))
                continue
            if rq["kind"] != "valid":
                v.append(({"class": "invalid-accepted", "kind": rq["kind"], "path": path + "-seq"}, "request %d committed with %s" % (k, rq["kind"])))
                continue
            if not covered and not dup:
                v.append(({"class": "overdraft-accepted", "path": path + "-seq", "position": pos}, "request %d committed although its replay finds a source short" % k))
            want = want_tx(rq)
            for sig, what in check_tx(want, r["tx"], "returned transaction", path + "-seq"):
                v.append((dict(sig, position=pos), "request %d of %d on one commander: %s" % (k, len(res), what)))
            if r.get("newlogs") != 1 or "log" not in r:
                v.append(({"class": "log-count", "path": path + "-seq", "position": pos}, "request %d: %s new logs for one committed request" % (k, r.get("newlogs"))))
            else:
                for sig, what in check_tx(want, r["log"], "persisted log", path + "-seq"):
                    v.append((dict(sig, position=pos), "request %d of %d on one commander: %s" % (k, len(res), what)))
            held = r.get("log") or r["tx"]
            for s_, d_, a_, as_ in held["postings"]:
                if a_.lstrip("-").isdigit():
                    bal[(s_, as_)] -= int(a_)
                    bal[(d_, as_)] += int(a_)
            if held["ref"]:
                refs.add(held["ref"])
    return v


def run_txseq(ctx):
    """sequences of posting lists on ONE commander (one compilation cache): the stored colliding pairs, then random sequences"""
    area = "txseq"
    if ctx.replay_file:
        rp = json.load(open(ctx.replay_file))
        inputs = [rp["replay"]["input"]]
        for k, r in enumerate(inputs):
            r.setdefault("id", k)
    else:
        gen = ctx.path(area + ".gen.jsonl")
        p = run_harness([area, "gen", "-seed", ctx.seed, "-n", 400 if ctx.quick else 20000, "-tier", ctx.tier, "-out", gen])
        if p.returncode != 0:
            ctx.l2_broken.append({"stream": area + "-gen", "detail": (p.stdout + p.stderr)[-2000:]})
            return
        cs = seq_from_corpus()
        for k, r in enumerate(cs):
            r["id"] = -(k + 1)
        inputs = cs + read_jsonl(gen)
    inf, outf = ctx.path(area + ".in.jsonl"), ctx.path(area + ".impl.jsonl")
    write_jsonl(inf, inputs)
    p = run_harness([area, "exec", "-in", inf, "-out", outf])
    if p.returncode != 0:
        ctx.l2_broken.append({"stream": area + "-exec", "detail": (p.stdout + p.stderr)[-2000:]})
        return
    impl = {r["id"]: r["out"] for r in read_jsonl(outf)}
    st = collections.Counter()
    digests = collections.Counter()
    for inp in inputs:
        out = impl.get(inp["id"])
        if out is None:
            continue
        if "panic" in out:
            ctx.violation({"property": "C09", "class": "panic", "path": "seq"}, "sequence case panicked: %s" % out["panic"], {"area": area, "input": inp, "observed": out})
            continue
        st["sequences"] += 1
        st["requests"] += len(inp["requests"])
        texts = out.get("scripts") or []
        st["sequences_whose_shapes_all_differ"] += 1 if len(set(texts)) == len(texts) else 0
        st["sequences_repeating_a_shape (a legitimate cache hit)"] += 1 if len(set(texts)) < len(texts) else 0
        if inp.get("corpus"):
            digests[inp.get("digest")] += 1
            stored = [bytes.fromhex(t).decode() for t in inp.get("texts", [])]
            if stored != texts:
                st["stored_pairs_whose_texts_TxToScriptData_no_longer_emits (stale: re-run tools/collide/find)"] += 1
        for sig, what in seq_oracle(inp, out):
            ctx.violation(dict(sig, property="C09"), what, {"area": area, "input": {k: v for k, v in inp.items() if k != "texts"}, "observed": out})
    ctx.cov["evaluations"] += st["requests"] * 2
    ctx.cov["input_distribution"]["txseq"] = dict(st, stored_colliding_pairs_by_digest=dict(sorted(digests.items())))


def run(ctx):
    ctx.cov["trusted_base"] = [
        "Lean 4.33 kernel; axioms allowed: propext, Classical.choice, Quot.sound",
        "Model.Numscript.Spec as the meaning of the generated script (tied to compiler+VM by C01/C08's differential); here it is tied end to end "
        "to the commander for the scripts TxToScriptData produces",
        "Go harness: real ledger.TxToScriptData, real command.Commander over storage.InMemoryStore, real v1/v2 routers and ProcessBulk over a "
        "backend.Ledger that forwards CreateTransaction (bulks: every write) to the commander (as engine.Ledger does); PostgreSQL store not exercised",
        "bulks: the logs are copied when the commander inserts them into the store; results[i] is read as the answer to elements[i] and the k-th "
        "successful element as the owner of the k-th log (ProcessBulk is sequential; the oracle flags any answer/log that breaks this pairing)",
        "math/big modelled by Lean Int; Go maps modelled by association lists (the code sorts the names it prints)",
    ]
    ctx.l1()
    if not (ctx.ensure_driver() and ctx.ensure_harness()):
        return
    areas = ("txscript", "txbulk", "txseq")
    if ctx.replay_file:   # a replay carries one input of one area
        import json
        areas = (json.load(open(ctx.replay_file)).get("replay", {}).get("area", "txscript"),)
    ctx.cov["input_distribution"] = {}
    if "txscript" in areas:
        run_txscript(ctx)
    if "txbulk" in areas:
        run_txbulk(ctx)
    if "txseq" in areas:
        run_txseq(ctx)
    ctx.cov["rule"] = ("(a) random posting lists (1..%d postings over a pool of 2-5 or 11-15 accounts incl. world, 1-3 repeating amounts incl. 0 / 2^64±1 / 2^70, "
                       "1-2 assets incl. /precision; chains, fan-in/out, self-transfers; 40%% of the lists draw assets and amounts from ONE near-collision family: "
                       "assets stem+w[:i] or stem/w[:i] and amounts the suffixes/prefixes of one digit word w, 60%% of those with two postings whose "
                       "asset||amount texts are equal) with balance tables derived from the amounts (exactly enough / one "
                       "short / surplus / empty / already negative), metadata, reference and timestamp present or absent; 15%% malformed (negative or "
                       "missing amount, invalid address, invalid asset, no posting); every request goes through 4 paths; non-trivial = distinct valid "
                       "request with a repeated account, a repeated amount, a chain or a text collision. (b) bulks of 1-4 elements: 62%% posting-mode creates "
                       "(1-4 postings from pools shared by the bulk, metadata key / reference / timestamp each present or absent per element, 8%% malformed), "
                       "script creates, reverts, metadata writes, unknown actions, undecodable data; balances derived for the whole sequence (exact / one short / "
                       "empty / surplus), continueOnFailure on or off; non-trivial = distinct bulk with at least two posting-mode creates. (c) sequences on one commander: "
                       "the weak-key pairs of corpus/nscache in both orders + random sequences of 2-4 lists (1-5 postings over 1-3 accounts + world and 1-2 monetaries; a "
                       "quarter repeat the previous shape with other amounts, a third permute / end-swap it). Strings: 22%% of the single requests and 18%% of the bulk elements "
                       "get NUL / control / invisible characters in reference, metadata keys and values") % (12 if ctx.quick else 30)
    ctx.assumptions += [
        "requests are submitted one at a time, never as dry runs (known engine defects on those paths are tracked under C02/C14/C16)",
        "the persisted log is the one held by storage.InMemoryStore; the SQL store's encoding is C13's business",
        "inside a bulk only posting-mode CREATE_TRANSACTION elements are judged; what the other elements leave in the store is taken as the state "
        "the next element meets (C18 owns their dispatch)",
    ]
