"""C18 — bulk requests run in order, answer position by position, stop at a failure."""
from vlib.common import *

META = {
    "text": "Lean theorems (bulk_positional, bulk_order, bulk_stops, bulk_stops_unless_requested, cont_flag_iff, bulk_flag, bulk_continue_all, "
            "failed_before_backend_never_executed, bulk_error_origin (a result ERROR means: failed before the backend call and never executed, or the backend call itself failed), "
            "undecodable_body_never_executed, bulk_codes, uncompilable_script_fails_in_backend) about Model.Bulk.processBulk for every element list, "
            "backend behaviour and flag value; the model is tied to the real v2 router/bulkHandler/ProcessBulk by a seeded differential that sends REAL element bodies of every shape "
            "the handler and the engine branch on (transactions by postings / by a script / by a script the real compiler refuses / by both / by neither, metadata targets of every "
            "kind with well- and ill-formed ids, reverts with their flags, missing / null / mistyped data) over a backend that answers with the error values of "
            "internal/engine/command/errors.go (so the handler's own error mapping runs for every class); results, error codes, calls and status are compared, and an independent oracle "
            "evaluates the property on the implementation's own outputs: one result per processed element, result i describes element i, an element answered ERROR was not executed "
            "unless the error is the backend's own, an element answered with its action was executed exactly once, HTTP 400 <=> some result is ERROR.",
    "note": "Trusted: Lean kernel (axioms propext/Classical.choice/Quot.sound at most); Model.Bulk.decodes / engineAns (which bodies the decoder refuses, which the engine refuses first) "
            "are tied to the code by the differential only; the Go harness and its fake backend.Ledger (it runs the REAL Numscript compiler + SetVarsFromJSON on the script of a transaction, "
            "as Commander.exec does, then answers as scripted). The rest of the engine behind the backend is out of scope of C18.",
    "technique": "Lean 4 proof by structural induction over the element list + differential correspondence with ProcessBulk",
    "design_ref": "5 (C18), 3.8",
}

KNOWN_ACTIONS = {"CREATE_TRANSACTION", "ADD_METADATA", "REVERT_TRANSACTION", "DELETE_METADATA"}


def requested(inp):
    """is continue-on-failure requested?  When the input carries the spelling the client put on the wire, the property's reading of it
    (written here independently of the Lean model): only 1 / true, in any letter case, request it; anything else, the bare parameter and
    the absent parameter do not."""
    raw = inp.get("cont_raw")
    if raw is None:
        return inp["cont"]
    return raw.lower() in ("1", "true")


# ---- what the property demands of an element, read off its body (independent of the Lean model).
# Shapes every reading refuses before anything is executed / refuses (possibly after handing them to the engine) / may be read
# either way (then the answer only has to be CONSISTENT: refused and not executed, or executed once and answered as a success):
ANY_UNCALLED = {"wrongshape", "badfield", "nodata", "postings_badamount"}
UNCALLED = {"ADD_METADATA": {"notarget", "tx_strid", "tx_fracid", "null"}, "DELETE_METADATA": {"notarget", "tx_strid", "tx_fracid", "null"},
            "REVERT_TRANSACTION": {"strid", "fracid", "force_str"}, "CREATE_TRANSACTION": set()}
REFUSED = {"CREATE_TRANSACTION": {"script_broken", "script_novars", "neither", "empty_postings", "script_empty", "null"}}
EITHER = {"CREATE_TRANSACTION": {"both", "both_broken"},
          "ADD_METADATA": {"tx_negid", "tx_nullid", "acct_numid", "acct_emptyid", "acct_objid", "unknown_target", "lower_target", "no_targettype"},
          "DELETE_METADATA": {"tx_negid", "tx_nullid", "acct_numid", "acct_emptyid", "acct_objid", "unknown_target", "lower_target", "no_targettype"},
          "REVERT_TRANSACTION": {"noid", "null"}}
KIND_OF = {"CREATE_TRANSACTION": "create", "ADD_METADATA": "savemeta", "REVERT_TRANSACTION": "revert", "DELETE_METADATA": "deletemeta"}


def expect(e):
    """'uncalled' (must be ERROR, never handed to the backend) | 'refused' (must be ERROR, never executed successfully) |
    'either' | 'success' | 'backend-error' (well-formed, the scripted backend answers with an error)"""
    a, d = e["action"], e["data"]
    if a not in KNOWN_ACTIONS or d in ANY_UNCALLED or d in UNCALLED.get(a, ()):
        return "uncalled"
    if d in REFUSED.get(a, ()):
        return "refused"
    if e["outcome"] != "ok":
        return "backend-error"
    if d in EITHER.get(a, ()):
        return "either"
    return "success"


def cause(e):
    return ("unknown-action" if e["action"] not in KNOWN_ACTIONS else
            "backend-" + e["outcome"] if expect(e) == "backend-error" else
            "undecodable-data" if expect(e) == "uncalled" else "body-" + e["data"])


def elem_fails(e):
    """for the input statistics only"""
    return expect(e) in ("uncalled", "refused", "backend-error")


def oracle(inp, out):
    """The property itself, evaluated on what the implementation did (independent of the Lean model).
    Returns a list of (signature, description)."""
    v = []
    if "panic" in out:
        return [({"class": "panic"}, "bulk handler panicked: %s" % out["panic"])]
    elems, cont = inp["elems"], requested(inp)
    if inp.get("broken"):
        if out["calls"] or out["results"] or out["status"] != 400:
            return [({"class": "rejected-body-executed"}, "a body that is not JSON led to calls/results/status %s" % out["status"])]
        return []
    res, calls = out["results"], out["calls"]
    by_elem = {}
    for c in calls:
        by_elem.setdefault(c["idx"], []).append(c)
    # position by position: result i describes element i; an element answered ERROR was not executed (a call made for it failed);
    # an element answered with its action was executed exactly once
    stop_at = None
    for i, e in enumerate(elems):
        if i >= len(res):
            break
        r, cs = res[i], by_elem.get(i, [])
        done = [c for c in cs if c.get("ok", True)]
        want = expect(e)
        if r != "ERROR" and (r != e["action"] or e["action"] not in KNOWN_ACTIONS):
            v.append(({"class": "positional", "cause": cause(e)}, "result %d is %r, element %d is a %r" % (i, r, i, e["action"])))
        elif r == "ERROR":
            if done:
                v.append(({"class": "positional", "cause": "error-but-executed"},
                          "element %d (%s, body %s) is answered ERROR and was executed all the same (%s call succeeded)" % (i, e["action"], e["data"], done[0]["kind"])))
            if want == "success":
                v.append(({"class": "positional", "cause": cause(e)}, "result %d is 'ERROR', element %d demands %r" % (i, i, e["action"])))
            elif want == "backend-error" and not cs:
                v.append(({"class": "order", "cause": "missing-call"}, "element %d is well-formed and was never handed to the backend" % i))
        else:
            if want in ("uncalled", "refused", "backend-error"):
                v.append(({"class": "positional", "cause": cause(e)}, "result %d is %r, element %d demands 'ERROR'" % (i, r, i)))
            if len(done) != 1:
                v.append(({"class": "order", "cause": "missing-call" if not done else "executed-twice"},
                          "element %d is answered %r and was executed %d times" % (i, r, len(done))))
        if want == "uncalled" and cs:
            v.append(({"class": "order", "cause": "spurious-call"}, "call for element %s that is not executable" % i))
        if len(cs) > 1:
            v.append(({"class": "order", "cause": "executed-twice"}, "%d backend calls for element %d" % (len(cs), i)))
        if r == "ERROR" and not cont:
            stop_at = i
            break
    processed = len(elems) if stop_at is None else stop_at + 1
    # exactly one result per processed element
    if len(res) != processed:
        blame = next((cause(elems[i]) for i in range(min(processed, len(elems))) if expect(elems[i]) != "success"), "other")
        v.append(({"class": "positional", "cause": blame},
                  "%d results for %d processed elements (%s)" % (len(res), processed, blame)))
    # strictly in the order given; each call belongs to a processed element, is of its kind and carries its parameters
    idxs = [c["idx"] for c in calls]
    if any(b <= a for a, b in zip(idxs, idxs[1:])):
        v.append(({"class": "order"}, "backend calls out of order: %s" % idxs))
    for c in calls:
        i = c["idx"]
        if not (0 <= i < len(elems)) or elems[i]["action"] not in KNOWN_ACTIONS:
            v.append(({"class": "order", "cause": "spurious-call"}, "call for element %s that is not executable" % i))
            continue
        e = elems[i]
        if c["kind"] != KIND_OF[e["action"]]:
            v.append(({"class": "order", "cause": "spurious-call"}, "element %d (%s) led to a %s call" % (i, e["action"], c["kind"])))
        elif c["ik"] != e["ik"] or c["dry"]:
            v.append(({"class": "order", "cause": "parameters"}, "element %d executed with ik=%r dry=%r" % (i, c["ik"], c["dry"])))
        elif c["kind"] == "revert" and "force" in c and e["data"] in ("good", "force", "at_effective", "noid") and c["force"] != (e["data"] in ("force", "noid")):
            v.append(({"class": "order", "cause": "parameters"}, "revert element %d (%s) executed with force=%r" % (i, e["data"], c["force"])))
        if i >= processed:
            if (not cont) and stop_at is not None:
                v.append(({"class": "stop"}, "elements after the first failure (%d) were executed: %s" % (stop_at, idxs)))
            else:
                v.append(({"class": "order", "cause": "spurious-call"}, "call for element %d, which has no result" % i))
    # the response signals failure exactly when some element failed
    failed = "ERROR" in res
    if (out["status"] == 400) != failed or out["status"] not in (200, 400):
        v.append(({"class": "flag"}, "status %s although %s" % (out["status"], "result %d is an ERROR" % res.index("ERROR") if failed else "no result is an ERROR")))
    # an error code on the ERROR results, none on the others
    codes = out.get("codes", [])
    if len(codes) == len(res) and any((c != "") != (r == "ERROR") for c, r in zip(codes, res)):
        v.append(({"class": "positional", "cause": "error-code"}, "error codes %s do not match the results %s" % (codes, res)))
    return v


def run(ctx):
    ctx.cov["trusted_base"] = [
        "Lean 4.33 kernel; axioms allowed: propext, Classical.choice, Quot.sound",
        "Model.Bulk abstracts an element to (action, data decodes?, backend answer); decodes / engineAns / backendCode say where these come from for real bodies; tied to ProcessBulk/bulkHandler by the differential only",
        "harness fake backend.Ledger (real Numscript compiler on the script of a transaction, then scripted answers built with the engine's error constructors), real v2 router + bulkHandler + ProcessBulk in-process",
    ]
    ctx.l1()
    if not (ctx.ensure_driver() and ctx.ensure_harness()):
        return
    n = 400 if ctx.quick else 20000
    r = pipeline(ctx, "bulk", n)
    if r is None:
        return
    inputs, impl, model = r
    compare(ctx, "bulk:results+codes+calls+status", inputs, impl, model,
            proj_impl=lambda i, o: {"status": o.get("status"), "results": o.get("results"), "codes": o.get("codes"),
                                    "calls": [c["idx"] for c in o.get("calls", [])]} if "panic" not in o else o)
    seen, nontrivial = set(), 0
    for inp in inputs:
        out = impl.get(inp["id"])
        if out is None:
            continue
        for sig, what in oracle(inp, out):
            sig = dict(sig, property="C18")
            ctx.violation(sig, what, {"area": "bulk", "input": inp, "observed": out})
        h = shash({k: v for k, v in inp.items() if k not in ("id", "corpus")})
        fl = [elem_fails(e) for e in inp["elems"]]
        if h not in seen and any(fl[:-1]):
            nontrivial += 1
        seen.add(h)
    ctx.cov["evaluations"] = len(inputs)
    ctx.cov["distinct_nontrivial"] = nontrivial
    ctx.cov["rule"] = ("two streams. (1) random bulk bodies (1..%d elements; known/unknown actions; decodable/undecodable data; scripted backend outcomes; "
                       "both continueOnFailure values, a third of the requests spelling the flag in one of 22 ways (true/TRUE/1/false/0/no/False/yes/on/bare/empty/padded …); per-element idempotency keys; "
                       "a request-level Idempotency-Key header). (2) real element bodies: every body shape of every action and every backend error class once in the middle of a bulk, alone, "
                       "with and without continueOnFailure, then random mixes of them (40 %% of the elements carry a special shape, 20 %% a failing backend answer); "
                       "non-trivial = distinct body with a failing or unknown element that is not in last position") % (5 if ctx.quick else 8)
    ctx.cov["samples"] = [{"input": i, "impl": impl.get(i["id"])} for i in inputs[1:4]]
    dist = {}
    for inp in inputs:
        for e in inp["elems"]:
            k = ("unknown" if e["action"] not in KNOWN_ACTIONS else e["action"]) + "/" + e["data"] + "/" + e["outcome"]
            dist[k] = dist.get(k, 0) + 1
    ctx.cov["input_distribution"] = dist
    verdicts = {}
    for inp in inputs:
        out = impl.get(inp["id"]) or {}
        by = {}
        for c in out.get("calls", []):
            by.setdefault(c["idx"], []).append(c)
        for i, (e, r) in enumerate(zip(inp["elems"], out.get("results", []))):
            how = ("ok" if r != "ERROR" else "error before the backend call" if not by.get(i) else "error of the backend call")
            k = expect(e) + " -> " + how
            verdicts[k] = verdicts.get(k, 0) + 1
    ctx.cov["element_verdicts"] = verdicts
    ctx.assumptions += ["the engine behind backend.Ledger is replaced by a scripted fake: C18 is about the bulk layer only"]
