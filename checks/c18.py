"""C18 — bulk requests run in order, answer position by position, stop at a failure."""
from vlib.common import *

META = {
    "text": "Lean theorems (bulk_positional, bulk_order, bulk_stops, bulk_stops_unless_requested, cont_flag_iff, bulk_flag, bulk_continue_all) about Model.Bulk.processBulk for every element list, "
            "backend behaviour and flag value; the model is tied to the real v2 router/bulkHandler/ProcessBulk by a seeded differential over a scripted "
            "backend, and an independent oracle evaluates the property on the implementation's own outputs.",
    "note": "Trusted: Lean kernel (axioms propext/Classical.choice/Quot.sound at most), the abstraction of an element to (action, decodable?, backend outcome), "
            "the Go harness and its fake backend.Ledger. The engine behind the backend is out of scope of C18.",
    "technique": "Lean 4 proof by structural induction over the element list + differential correspondence with ProcessBulk",
    "design_ref": "5 (C18), 3.8",
}

KNOWN_ACTIONS = {"CREATE_TRANSACTION", "ADD_METADATA", "REVERT_TRANSACTION", "DELETE_METADATA"}


def requested(inp):
    """is continue-on-failure requested?  When the input carries the spelling the client put on the wire, the property's reading of it
    (written here independently of the Lean model): only 1 / true, in any letter case, request it; anything else, the bare parameter and
    the absent parameter do not."""
    raw = inp.get("cont_raw")
    if raw is None:
        return inp["cont"]
    return raw.lower() in ("1", "true")


def elem_fails(e):
    return e["action"] not in KNOWN_ACTIONS or e["data"] != "good" or e["outcome"] != "ok"


def oracle(inp, out):
    """The property itself, evaluated on what the implementation did (independent of the Lean model).
    Returns a list of (signature, description)."""
    v = []
    if "panic" in out:
        return [({"class": "panic"}, "bulk handler panicked: %s" % out["panic"])]
    elems, cont = inp["elems"], requested(inp)
    if inp.get("broken"):
        if out["calls"] or out["results"] or out["status"] != 400:
            return [({"class": "rejected-body-executed"}, "a body that is not JSON led to calls/results/status %s" % out["status"])]
        return []
    fails = [elem_fails(e) for e in elems]
    first = next((i for i, f in enumerate(fails) if f), None)
    processed = len(elems) if (cont or first is None) else first + 1
    res = out["results"]

    def cause(i):
        e = elems[i]
        return ("unknown-action" if e["action"] not in KNOWN_ACTIONS else
                "undecodable-data" if e["data"] != "good" else "backend-" + e["outcome"])
    # exactly one result per processed element, at the same position
    if len(res) != processed:
        blame = next((cause(i) for i in range(processed) if fails[i] and cause(i) in ("unknown-action", "undecodable-data")), "other")
        v.append(({"class": "positional", "cause": blame},
                  "%d results for %d processed elements (%s)" % (len(res), processed, blame)))
    else:
        for i in range(processed):
            want = "ERROR" if fails[i] else elems[i]["action"]
            if res[i] != want:
                v.append(({"class": "positional", "cause": cause(i)}, "result %d is %r, element %d demands %r" % (i, res[i], i, want)))
                break
    # strictly in the order given; each call belongs to a processed, executable element
    idxs = [c["idx"] for c in out["calls"]]
    if any(b <= a for a, b in zip(idxs, idxs[1:])):
        v.append(({"class": "order"}, "backend calls out of order: %s" % idxs))
    for c in out["calls"]:
        i = c["idx"]
        if not (0 <= i < len(elems)) or elems[i]["action"] not in KNOWN_ACTIONS or elems[i]["data"] != "good":
            v.append(({"class": "order", "cause": "spurious-call"}, "call for element %s that is not executable" % i))
        elif c["ik"] != elems[i]["ik"] or c["dry"]:
            v.append(({"class": "order", "cause": "parameters"}, "element %d executed with ik=%r dry=%r" % (i, c["ik"], c["dry"])))
    want_calls = [i for i in range(processed) if elems[i]["action"] in KNOWN_ACTIONS and elems[i]["data"] == "good"]
    if not v and idxs != want_calls:
        if (not cont) and first is not None and any(i > first for i in idxs):
            v.append(({"class": "stop"}, "elements after the first failure (%d) were executed: %s" % (first, idxs)))
        else:
            v.append(({"class": "order", "cause": "missing-call"}, "calls %s, expected %s" % (idxs, want_calls)))
    # the response signals failure exactly when some element failed
    failed = any(fails[:processed])
    if (out["status"] == 400) != failed or out["status"] not in (200, 400):
        v.append(({"class": "flag"}, "status %s although failed=%s" % (out["status"], failed)))
    return v


def run(ctx):
    ctx.cov["trusted_base"] = [
        "Lean 4.33 kernel; axioms allowed: propext, Classical.choice, Quot.sound",
        "Model.Bulk abstracts an element to (action, data decodes?, backend outcome); tied to ProcessBulk/bulkHandler by the differential only",
        "harness fake backend.Ledger (scripted outcomes), real v2 router + bulkHandler + ProcessBulk in-process",
    ]
    ctx.l1()
    if not (ctx.ensure_driver() and ctx.ensure_harness()):
        return
    n = 400 if ctx.quick else 20000
    r = pipeline(ctx, "bulk", n)
    if r is None:
        return
    inputs, impl, model = r
    compare(ctx, "bulk:results+calls+status", inputs, impl, model,
            proj_impl=lambda i, o: {"status": o.get("status"), "results": o.get("results"),
                                    "calls": [c["idx"] for c in o.get("calls", [])]} if "panic" not in o else o)
    seen, nontrivial = set(), 0
    for inp in inputs:
        out = impl.get(inp["id"])
        if out is None:
            continue
        for sig, what in oracle(inp, out):
            sig = dict(sig, property="C18")
            ctx.violation(sig, what, {"area": "bulk", "input": inp, "observed": out})
        h = shash({k: v for k, v in inp.items() if k not in ("id", "corpus")})
        fl = [elem_fails(e) for e in inp["elems"]]
        if h not in seen and any(fl[:-1]):
            nontrivial += 1
        seen.add(h)
    ctx.cov["evaluations"] = len(inputs)
    ctx.cov["distinct_nontrivial"] = nontrivial
    ctx.cov["rule"] = ("random bulk bodies (1..%d elements; known/unknown actions; decodable/undecodable data; scripted backend outcomes; "
                       "both continueOnFailure values, a third of the requests spelling the flag in one of 22 ways (true/TRUE/1/false/0/no/False/yes/on/bare/empty/padded …); per-element idempotency keys); non-trivial = distinct body with a failing or "
                       "unknown element that is not in last position") % (5 if ctx.quick else 8)
    ctx.cov["samples"] = [{"input": i, "impl": impl.get(i["id"])} for i in inputs[1:4]]
    dist = {}
    for inp in inputs:
        for e in inp["elems"]:
            k = ("unknown" if e["action"] not in KNOWN_ACTIONS else e["action"]) + "/" + e["data"] + "/" + e["outcome"]
            dist[k] = dist.get(k, 0) + 1
    ctx.cov["input_distribution"] = dist
    ctx.assumptions += ["the engine behind backend.Ledger is replaced by a scripted fake: C18 is about the bulk layer only"]
