"""C05 — gap-free hash chain in every schedule and after every restart."""
from checks.enginelib import *
from checks import batchlib

META = {
    "text": "Lean: component model Chain (commit = allocate tx id + chain + append in one step; batches; Init after a crash); theorems chain_ok (ids are positions, every hash digests its predecessor's hash and its own content, transaction ids 0,1,2… in log order, for the durable log and what is queued), chain_ok_durable, chain_after_crash. Tie: trace validation incl. the log content and an independent re-computation of every hash; oracle on what InsertLogs received across restarts.",
    "note": 'Trusted: Lean kernel; event extraction; SHA-256/JSON of the hash are recomputed by the harness (their Lean model lives under C13), the model carries the verdict as a checked flag.',
    "technique": 'Lean 4 proof (inductive invariant of the Chain component) + trace validation + chain oracle',
    "design_ref": '5 (C05)',
}


def run(ctx):
    area = batchlib.replay_area(ctx)
    if area == batchlib.AREA:       # a replay of the component stage: the operation sequence alone
        ctx.l1()
        batchlib.run_batcher(ctx, 'C05')
        return
    run_check(ctx, 'C05', ["chain"], lambda scn, run: concurrent(scn, run) or restarted(run), 'two writers overlapped or a restart happened')
    if area is not None:
        return
    # stage 2: batching.Batcher + job.Runner as components of their own (batch boundaries, a stop with work queued, a failing runner call)
    batchlib.run_batcher(ctx, 'C05')
