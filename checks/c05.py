"""C05 — gap-free hash chain in every schedule and after every restart."""
from checks.enginelib import *
from checks import batchlib

META = {
    "text": "Lean: component model Chain (commit = allocate tx id + chain + append in one step; batches; Init after a crash); theorems chain_ok (ids are positions, every hash digests its predecessor's hash and its own content, transaction ids 0,1,2… in log order, for the durable log and what is queued), chain_ok_durable, chain_after_crash. Tie: trace validation incl. the log content and an independent re-computation of every hash; oracle on what InsertLogs received across restarts. Stage 2, the component between commit and the store (batching.Batcher + job.Runner, one worker): Lean model Batcher (Model/Batcher.lean), theorems for every operation sequence, every maxBatchSize >= 1, unbounded queues: batches_concat_is_appended_prefix + every_batch_boundary_is_a_prefix (what the runner function is handed, batch after batch, is a prefix of what was appended: nothing twice, nothing skipped, order kept), batch_size_bounded, no_item_lost_while_alive, every_item_eventually_persisted; a graceful stop waits for the write in flight: close_waits_for_inflight (Close has returned only when no runner call is in flight and the loop has ended), close_blocks_while_call_in_flight, close_returns_with_the_call, nothing_reaches_the_store_after_close. Tie: area batcher — seeded operation sequences (append / the parked runner call returns nil / returns an error / Close / Run) on the real Batcher[int] with maxBatchSize in {1,2,3,5}, compared step by step with the model (stream batcher:model-vs-real); oracle on the implementation's record alone: batch-boundary, batch-size, batch-aliased, close-returned-while-call-in-flight. Engine runs: a graceful stop (Commander.Close in a goroutine while a batch is inside InsertLogs, the order of its return and of the store's answer recorded) followed by a new commander on the same store and further writes; oracle close-returned-while-insert-in-flight next to ids / chain / transaction ids of what the store received.",
    "note": 'Trusted: Lean kernel; event extraction; SHA-256/JSON of the hash are recomputed by the harness (their Lean model lives under C13), the model carries the verdict as a checked flag. Component stage: the batcher harness (gate in the runner function, quiescence from the events an operation must cause, overlay exports VerifPendingLen / VerifUnpark, goroutine state of a waiting Close); one worker; interleavings inside one operation are not explored.',
    "technique": 'Lean 4 proof (inductive invariant of the Chain component) + trace validation + chain oracle; Lean 4 proof (inductive invariant of the Batcher / job.Runner component) + operation-sequence differential on the real component + batch-boundary oracle + regenerated commander skeleton (extract/commander -> Generated/Commander.lean on every run): well-formedness of every control path by decide, refinement of this component by the interpreted skeleton under every schedule, observed runs re-executed in the skeleton system',
    "design_ref": '5 (C05), 0a (The batcher and the job runner)',
}


def run(ctx):
    area = batchlib.replay_area(ctx)
    if area == batchlib.AREA:       # a replay of the component stage: the operation sequence alone
        ctx.l1()
        batchlib.run_batcher(ctx, 'C05')
        return
    run_check(ctx, 'C05', ["chain"], lambda scn, run: concurrent(scn, run) or restarted(run), 'two writers overlapped or a restart happened')
    if area is not None:
        return
    # stage 2: batching.Batcher + job.Runner as components of their own (batch boundaries, a stop with work queued, a failing runner call)
    batchlib.run_batcher(ctx, 'C05')
