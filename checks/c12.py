"""C12 — no script, variable map or ledger state can crash the engine."""
import re
from checks.numlib import *
from checks.syntaxlib import run_syntax

META = {
    "text": "Stage 1: Spec.run is a total Lean function whose outcome type has no crash alternative (outcome_defined, first_error_wins, run_is_pure). Stage 2 "
            "(bytecode model A2, every Go panic site an explicit outcome): vm_terminates (no jumps: at most one tick per instruction), compile_never_panics (the "
            "nil *Address of VisitExpr is never dereferenced), resolve_never_panics (ResolveResources/ResolveBalances on ANY compiled program, any variables, any "
            "store: no failed type assertion, no nil dereference — the compiler only stores addresses of earlier resources of the right type), "
            "vm_never_panics (VM.run of ANY compiled program — the whole language: allotments on both sides, ordered destinations with max/remaining/kept, "
            "send-all, save, metadata, print —, any variable map, any store: no wrong-typed or empty pop, no BUMP out of range, no nil balance map or nil "
            "amount, stack empty at the end, metadata renderable; a corollary of C08.compile_correct: the VM's outcome is Spec.run's, which has no panic), "
            "vm_never_panics_text (the same from the text: whatever the front-end model accepts, shorter than 2^64 characters), vm_never_panics_partial (the earlier "
            "statement on a fragment, kept). Ties: the compiler+VM models equal the real ones on every generated case "
            "(bytecode equality, outcome incl. panic/no panic), Spec vs compiler+VM with a recovered Go panic as an outcome, every compiled program run twice "
            "under a watchdog and a third time on a second variable map against a fresh compilation of the text (what a run leaves in the compiled program), the whole case list executed again in the opposite order in a second process (an outcome that depends on the cases executed "
            "before it = state left behind; replay = the earlier case + the case), a byte-level stream into the real parser (errors rendered).",
    "note": "vm_never_panics has the side conditions of C08.compile_correct (at least one statement — Execute indexes Instructions[0] —, lists shorter than "
            "2^64, no zero-denominator portion literal), none a restriction of the language. PARTIAL: the theorems are about the MODELS of compiler and VM "
            "(tied to the Go code by the differentials, panic as an outcome); for the ANTLR parser crash-freedom is observed on the sampled inputs, not proved. "
            "Trusted: Lean kernel; harness; watchdog timeout = hang.",
    "technique": "Lean 4 proof (totality of Spec; typed resource tables; compiler correctness by frame lemmas, hence no reachable panic site of the bytecode VM) + "
                 "differential correspondence with panic as an outcome + crash/hang oracle",
    "design_ref": "5 (C12)",
}


def panic_kind(msg):
    msg = re.sub(r"0x[0-9a-f]+|\d+", "N", msg)
    return msg[:60]


def run(ctx):
    ctx.cov["trusted_base"] = TRUSTED + TRUSTED_A2
    ctx.cov["partial"] = ("vm_never_panics, resolve_never_panics and compile_never_panics are proved for every program of the language, about the compiler and VM "
                           "MODELS; that the models are the Go code (differentials) and the ANTLR parser's crash-freedom: observed only")
    ctx.l1()
    rarea = None
    if ctx.replay_file:
        rarea = (json.load(open(ctx.replay_file)).get("replay") or {}).get("area")
    if rarea == "nscache":
        from checks import c08
        c08.run_cache(ctx, prop="C12")
        return
    if rarea == "nscmd":
        if ctx.ensure_harness():
            run_nscmd(ctx, 1, "C12")
        return
    if run_syntax(ctx):  # front end (lexer+parser) on script texts; True = it served a --replay of one of its own cases
        return
    if not ctx.replay_file:
        # "leaves nothing behind that changes the outcome of later executions": the engine's compilation cache is such a place — a text
        # must be answered as a fresh compilation of THAT text, whatever was compiled before it (the stream of C08, judged here too)
        from checks import c08
        c08.run_cache(ctx, build=False, prop="C12")
        # … and the commander's own glue around the machine: every case also goes through Commander.CreateTransaction
        ctx.cov["evaluations_through_commander"] = run_nscmd(ctx, 600 if ctx.quick else 20000, "C12")
    r = run_numscript(ctx, 2500 if ctx.quick else 100000)
    if r is None:
        return
    inputs, impl, model = r
    # ---- model A2: the VM model has explicit panic outcomes; it must agree with the real VM on whether a panic occurs
    bc = run_bytecode(ctx, inputs)
    if bc is not None:
        compare_bytecode(ctx, inputs, bc[0], bc[1])
        ctx.cov["bytecode"]["model_panics"] = sum(1 for o in bc[1].values() if "panic" in (o.get("run") or {}))
        ctx.cov["bytecode"]["real_panics"] = sum(1 for o in bc[0].values() if "panic" in (o.get("run") or {}))
    compare(ctx, "numscript:spec-vs-vm(panic-as-outcome)", inputs, impl, model,
            proj_impl=lambda i, o: {"panic": True} if "panic" in o else {k: v for k, v in strip(o).items() if k not in ("lockR", "lockW")},
            proj_model=lambda i, o: {k: v for k, v in o.items() if k not in ("lockR", "lockW")})
    seen, nontrivial = set(), 0
    rp = Replays(ctx, inputs)
    for inp in inputs:
        out = impl.get(inp["id"], {})
        if "panic" in out:
            rp.violation({"property": "C12", "class": "panic", "message": panic_kind(out["panic"])},
                         "the engine panicked: %s" % out["panic"], inp, out, lambda o: "panic" in o)
        if "unstable" in out:
            rp.violation({"property": "C12", "class": "leaves-state-behind"}, "second execution of the same compiled program differs",
                         inp, out, lambda o: "unstable" in o)
        if "remembers" in out:
            rp.violation({"property": "C12", "class": "leaves-state-behind", "where": "compiled-program"},
                         "an execution left something in the compiled program: its run no. %s (%s) differs from a fresh compilation of the same text "
                         "on the same values" % (out["remembers"].get("run"), out["remembers"].get("on")), inp, out, lambda o: "remembers" in o)
    ctx.cov["second_variable_map"] = rebind_stats(inputs, impl)
    # all cases again in the opposite order, in another process: no outcome may depend on what ran before it
    ctx.cov["order_dependent_outcomes"] = order_dependence(ctx, inputs, impl, rp, "C12", "leaves-state-behind")
    ctx.cov["replay_isolation"] = dict(rp.stats)
    for inp in inputs:
        out = impl.get(inp["id"], {})
        h = shash(inp["text"])
        if h not in seen and out.get("err") != "compile_error":
            nontrivial += 1
        seen.add(h)
    # byte-level stream for the real parser (Go-side oracle only: no panic, no hang)
    p = run_harness(["nsbytes", "gen", "-seed", ctx.seed, "-n", 2000 if ctx.quick else 200000, "-tier", ctx.tier, "-out", ctx.path("nsbytes.in.jsonl")])
    p2 = run_harness(["nsbytes", "exec", "-in", ctx.path("nsbytes.in.jsonl"), "-out", ctx.path("nsbytes.impl.jsonl")], timeout=3000)
    if p.returncode != 0 or p2.returncode != 0:
        ctx.l2_broken.append({"stream": "nsbytes", "detail": (p.stderr + p2.stderr)[-1500:]})
    else:
        bi = {r["id"]: r for r in read_jsonl(ctx.path("nsbytes.in.jsonl"))}
        reached = 0
        for r in read_jsonl(ctx.path("nsbytes.impl.jsonl")):
            o = r["out"]
            if "panic" in o or o.get("hang"):
                ctx.violation({"property": "C12", "class": "parser-" + ("hang" if o.get("hang") else "panic"), "message": panic_kind(o.get("panic", ""))},
                              "the compiler front end %s on a byte string" % ("hung" if o.get("hang") else "panicked"),
                              {"area": "nsbytes", "input": bi[r["id"]], "observed": o})
            reached += 1 if o.get("ok") else 0
        ctx.cov["byte_strings"] = len(bi)
        ctx.cov["byte_strings_accepted_by_parser"] = reached
    ctx.cov["evaluations"] = len(inputs) + ctx.cov.get("byte_strings", 0)
    ctx.cov["distinct_nontrivial"] = nontrivial
    ctx.cov["rule"] = "generated well- and ill-typed programs (as C01) + byte strings (token soups, truncated/mutated valid programs, random bytes); non-trivial = distinct program text that compiled"
    ctx.cov["samples"] = [{"text": i["text"], "impl": impl.get(i["id"])} for i in inputs[:2]]
    ctx.cov["input_distribution"] = distribution(inputs, impl)
