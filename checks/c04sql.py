"""C04 — structural obligation on SQL text: every base-table reference of a read query is restricted to ONE ledger.

The analysis is syntactic and conservative.  A statement is tokenised (PostgreSQL tokenizer of checks/c20.py), grouped by
parentheses and split into query blocks (WITH / SELECT … FROM … WHERE …, sub-selects, CTE bodies, UNION branches).  A
from-item that names one of the base tables (and is not shadowed by a CTE of that name) is a *base-table reference*.  It is
**restricted** when, among the top-level AND-conjuncts of the WHERE clause of its block (or of the ON clause of the join that
brings it in), there is
  (a) `[alias.]ledger = <L>`   where <L> is the ledger literal of the store (captured SQL) or the `_ledger` parameter
                                (functions of the schema), or
  (b) `[alias.]<t>_seq = R.seq` (either order) where R is a restricted reference to table <t> in the same or an enclosing
      block — `seq` is the primary key of <t> and `<t>_seq` a foreign key to it, so the row belongs to R's row, or
      `[alias.]<t>_seq = <param>` is NOT accepted (a bare parameter proves nothing).
Calls of schema functions that take the ledger as first parameter must pass <L> there; their bodies are checked with the
same analysis against `_ledger`.
Anything the little parser does not understand raises SqlShapeError (the check reports it, never passes silently)."""
import re

from checks.c20 import tokenize

BASE_TABLES = ("transactions", "accounts", "moves", "logs", "transactions_metadata", "accounts_metadata")
CLAUSE_KW = ("from", "where", "group", "having", "order", "limit", "offset", "window", "union", "intersect", "except", "returning")
JOIN_KW = ("join", "left", "right", "inner", "cross", "full", "natural")
NOT_ALIAS = set(CLAUSE_KW) | set(JOIN_KW) | {"on", "using", "lateral", "as", "and", "or", "set"}


class SqlShapeError(Exception):
    pass


def norm_tokens(sql):
    out = []
    for k, v in tokenize(sql):
        if k.startswith("bad:"):
            raise SqlShapeError("tokenizer: " + k)
        if k.startswith("id:"):
            out.append(("id", k[3:].lower()))
        elif k.startswith("qid:"):
            out.append(("qid", k[4:]))
        elif k in ("str", "estr", "dstr"):
            out.append(("str", v))
        elif k == "num":
            out.append(("num", v))
        elif k.startswith("op:"):
            out.append(("op", k[3:]))
        elif k.startswith("p:"):
            out.append(("p", k[2:]))
        elif k == "cast":
            out.append(("op", "::"))
        elif k.startswith("param:"):
            out.append(("param", k[6:]))
        else:
            raise SqlShapeError("token kind " + k)
    return out


def group(tokens):
    """nest by parentheses: items are tokens or ('group', [items])"""
    stack = [[]]
    for t in tokens:
        if t == ("p", "("):
            stack.append([])
        elif t == ("p", ")"):
            if len(stack) == 1:
                raise SqlShapeError("unbalanced )")
            g = stack.pop()
            stack[-1].append(("group", g))
        else:
            stack[-1].append(t)
    if len(stack) != 1:
        raise SqlShapeError("unbalanced (")
    return stack[0]


def is_kw(it, *names):
    return it[0] == "id" and it[1] in names


def is_name(it):
    return it[0] in ("id", "qid")


def name_of(it):
    return it[1] if it[0] == "qid" else it[1]


def is_query(items):
    return bool(items) and is_kw(items[0], "select", "with")


def strip_parens(items):
    while len(items) == 1 and items[0][0] == "group":
        items = items[0][1]
    return items


def split_top(items, *kws):
    parts, cur = [], []
    for it in items:
        if is_kw(it, *kws):
            parts.append(cur)
            cur = []
        else:
            cur.append(it)
    parts.append(cur)
    return parts


def conjuncts(items):
    items = strip_parens(items)
    if any(is_kw(it, "or") for it in items):
        return [items]            # a disjunction restricts nothing by itself
    parts = split_top(items, "and")
    if len(parts) == 1:
        return [items]
    out = []
    for p in parts:
        out += conjuncts(p)
    return out


def colref(items):
    """[alias.]column → (alias|None, column) or None"""
    if len(items) == 1 and is_name(items[0]):
        return (None, name_of(items[0]).lower())
    if len(items) == 3 and is_name(items[0]) and items[1] == ("p", ".") and is_name(items[2]):
        return (name_of(items[0]), name_of(items[2]).lower())
    return None


class Analysis:
    def __init__(self, ledger_tok, ledger_funcs):
        self.ledger_tok = ledger_tok          # ('str', name) or ('id', '_ledger')
        self.ledger_funcs = ledger_funcs      # names of schema functions whose first parameter is the ledger
        self.refs = []                        # dict(table, alias, restricted, how)
        self.pending = []                     # base-table references, resolved together at the end (lateral sub-selects
                                              # refer to from-items whose restriction is only known after the outer WHERE)
        self.calls = []                       # dict(func, ok)

    # ---- expressions: look for sub-selects and ledger-taking function calls
    def scan_expr(self, items, ctes, outer):
        for i, it in enumerate(items):
            if it[0] == "group":
                inner = it[1]
                if is_query(inner):
                    self.query(inner, ctes, outer)
                else:
                    if i > 0 and items[i - 1][0] == "id" and items[i - 1][1] in self.ledger_funcs:
                        self.call(items[i - 1][1], inner)
                    self.scan_expr(inner, ctes, outer)

    def call(self, fname, args):
        first = []
        for a in args:
            if a == ("p", ","):
                break
            first.append(a)
        self.calls.append({"func": fname, "ok": first == [self.ledger_tok], "first": first})

    # ---- query blocks
    def query(self, items, ctes, outer):
        items = list(items)
        ctes = set(ctes)
        if is_kw(items[0], "with"):
            i = 1
            recursive = False
            if is_kw(items[i], "recursive"):
                recursive, i = True, i + 1
            while True:
                if not (is_name(items[i]) and is_kw(items[i + 1], "as") and items[i + 2][0] == "group"):
                    raise SqlShapeError("WITH: expected name AS ( … )")
                cname = name_of(items[i]).lower()
                body = items[i + 2][1]
                self.query(body, ctes | ({cname} if recursive else set()), outer)
                ctes.add(cname)
                i += 3
                if i < len(items) and items[i] == ("p", ","):
                    i += 1
                    continue
                break
            items = items[i:]
        if not is_kw(items[0], "select"):
            raise SqlShapeError("expected SELECT, got %r" % (items[:3],))
        # set operations
        branches, cur = [], []
        for it in items:
            if is_kw(it, "union", "intersect", "except"):
                branches.append(cur)
                cur = []
            else:
                cur.append(it)
        branches.append(cur)
        for b in branches:
            if b and is_kw(b[0], "all"):
                b = b[1:]
            self.select_core(b, ctes, outer)

    def select_core(self, items, ctes, outer):
        if not items or not is_kw(items[0], "select"):
            raise SqlShapeError("set-operation branch is not a SELECT: %r" % (items[:3],))
        # clause boundaries (top level of this block only)
        idx = {}
        order = []
        for i, it in enumerate(items):
            if it[0] == "id" and it[1] in CLAUSE_KW and it[1] not in idx and i > 0:
                # "distinct on (…)" / "order by" inside window specs do not occur at top level of our blocks
                idx[it[1]] = i
                order.append((i, it[1]))
        order.sort()

        def clause(name):
            if name not in idx:
                return []
            start = idx[name]
            end = min([i for i, _ in order if i > start] + [len(items)])
            return items[start + 1:end]
        sel_end = order[0][0] if order else len(items)
        select_list = items[1:sel_end]
        from_items = self.from_clause(clause("from"), ctes, outer)
        here = from_items + outer
        self.scan_expr(select_list, ctes, here)
        for c in ("where", "group", "having", "order", "limit", "offset"):
            self.scan_expr(clause(c), ctes, here)
        where_conj = conjuncts(clause("where")) if "where" in idx else []
        base_here = [f for f in from_items if f["kind"] == "base"]
        for f in base_here:
            f["conj"] = where_conj + f.get("on_conj", [])
            f["n_base_in_block"] = len(base_here)
            f["visible"] = here
            self.pending.append(f)

    def from_clause(self, items, ctes, outer):
        out = []
        i, n = 0, len(items)
        while i < n:
            # join keywords / commas
            lateral = False
            joined = False
            while i < n and (items[i] == ("p", ",") or is_kw(items[i], *JOIN_KW) or is_kw(items[i], "outer", "lateral")):
                joined = joined or is_kw(items[i], "join")
                lateral = lateral or is_kw(items[i], "lateral")
                i += 1
            if i >= n:
                break
            it = items[i]
            f = {"kind": None, "table": None, "alias": None, "restricted": False, "how": None}
            if it[0] == "group":
                inner = it[1]
                if not is_query(inner):
                    raise SqlShapeError("FROM ( … ) is not a sub-select")
                self.query(inner, ctes, out + outer)
                f["kind"] = "derived"
                i += 1
            elif is_name(it) and i + 1 < n and items[i + 1][0] == "group":
                fname = name_of(it).lower()
                if it[0] == "id" and fname in self.ledger_funcs:
                    self.call(fname, items[i + 1][1])
                self.scan_expr(items[i + 1][1], ctes, out + outer)
                f["kind"], f["table"] = "func", fname
                i += 2
            elif is_name(it):
                nm = name_of(it)
                i += 1
                if i + 1 < n and items[i] == ("p", ".") and is_name(items[i + 1]):   # schema-qualified
                    nm = name_of(items[i + 1])
                    i += 2
                low = nm.lower()
                if low in ctes:
                    f["kind"] = "cte"
                elif low in BASE_TABLES:
                    f["kind"] = "base"
                else:
                    f["kind"] = "other"
                f["table"] = low
                f["alias"] = nm
            else:
                raise SqlShapeError("FROM: unexpected %r" % (it,))
            if i < n and is_kw(items[i], "as"):
                i += 1
            if i < n and is_name(items[i]) and not (items[i][0] == "id" and items[i][1] in NOT_ALIAS):
                f["alias"] = name_of(items[i])
                i += 1
                if i < n and items[i][0] == "group" and f["kind"] == "func":   # column alias list t(x)
                    i += 1
            if i < n and is_kw(items[i], "on"):
                j = i + 1
                cond = []
                while j < n and not (items[j] == ("p", ",") or is_kw(items[j], *JOIN_KW)):
                    cond.append(items[j])
                    j += 1
                self.scan_expr(cond, ctes, out + [f] + outer)
                f["on_conj"] = conjuncts(cond)
                i = j
            out.append(f)
        return out

    def resolve(self):
        changed = True
        while changed:
            changed = False
            for f in self.pending:
                if not f["restricted"]:
                    how = self.restriction(f, f["visible"])
                    if how:
                        f["restricted"], f["how"] = True, how
                        changed = True
        self.refs = [{"table": f["table"], "alias": f["alias"], "restricted": f["restricted"], "how": f["how"]} for f in self.pending]

    def restriction(self, f, visible):
        for c in f["conj"]:
            c = strip_parens(c)
            # split on a top-level '='
            eq = [k for k, it in enumerate(c) if it == ("op", "=")]
            if len(eq) != 1:
                continue
            lhs, rhs = c[:eq[0]], c[eq[0] + 1:]
            for a, b in ((lhs, rhs), (rhs, lhs)):
                ca = colref(a)
                if ca is None:
                    continue
                mine = (ca[0] == f["alias"]) or (ca[0] is None and f["n_base_in_block"] == 1)
                if not mine:
                    continue
                if ca[1] == "ledger" and list(b) == [self.ledger_tok]:
                    return "ledger = L"
                m = re.fullmatch(r"(accounts|transactions)_seq", ca[1])
                cb = colref(b)
                if m and cb and cb[0] is not None and cb[1] == "seq":
                    for g in visible:
                        if g is not f and g["kind"] == "base" and g["alias"] == cb[0] and g["table"] == m.group(1) and g["restricted"]:
                            return "%s = %s.seq (foreign key to a restricted %s row)" % (ca[1], cb[0], m.group(1))
                # a sibling: both rows hang off the same parent row, and the other one is restricted
                if m and cb and cb[0] is not None and cb[1] == ca[1]:
                    for g in visible:
                        if g is not f and g["kind"] == "base" and g["alias"] == cb[0] and g["restricted"]:
                            return "%s = %s.%s (same %s row as a restricted %s row)" % (ca[1], cb[0], cb[1], m.group(1), g["table"])
                # the other direction: this row is the parent (seq) of a restricted child row
                if ca[1] == "seq" and cb and cb[0] is not None:
                    m2 = re.fullmatch(r"(accounts|transactions)_seq", cb[1])
                    if m2 and m2.group(1) == f["table"]:
                        for g in visible:
                            if g is not f and g["kind"] == "base" and g["alias"] == cb[0] and g["restricted"]:
                                return "seq = %s.%s (parent of a restricted %s row)" % (cb[0], cb[1], g["table"])
        return None


def analyse(sql, ledger_tok, ledger_funcs):
    toks = norm_tokens(sql)
    while toks and toks[-1] == ("p", ";"):
        toks.pop()
    items = group(toks)
    a = Analysis(ledger_tok, ledger_funcs)
    if not is_query(items):
        raise SqlShapeError("not a SELECT/WITH statement: %r" % (items[:3],))
    a.query(items, set(), [])
    a.resolve()
    return a


# ---------------------------------------------------------------- the schema's functions

FN_RE = re.compile(r"create\s+(?:or\s+replace\s+)?function\s+(\w+)\s*\((.*?)\)\s*returns\s+(.*?)\$\$(.*?)\$\$", re.S | re.I)


def schema_functions(src):
    """name -> dict(params=[(name, type)], lang, body)"""
    out = {}
    for m in FN_RE.finditer(src):
        name, args, mid, body = m.group(1), m.group(2), m.group(3), m.group(4)
        lang = re.search(r"language\s+(\w+)", mid, re.I)
        params = []
        for a in filter(None, [x.strip() for x in args.split(",")]):
            parts = a.split()
            params.append((parts[0].lower(), " ".join(parts[1:]).lower()))
        out[name.lower()] = {"params": params, "lang": (lang.group(1).lower() if lang else "?"), "body": body}
    return out


def ledger_functions(fns):
    return sorted(n for n, f in fns.items() if f["params"] and f["params"][0][0] == "_ledger")
