"""C08 — compiled programs do what the source says."""
from checks.numlib import *
from checks.syntaxlib import run_syntax

META = {
    "text": "Spec.run (Lean) is the definition of what the source text says; theorems: rejected_not_run, cache_transparent(_seq) for every cache size and "
            "eviction policy; the compiler+VM are tied to Spec by an end-to-end differential on generated well- and ill-typed programs (postings, "
            "metadata, error class, final balances) and each compiled program is executed twice to detect state left in it. compile_correct (bytecode "
            "level) is the planned next stage.",
    "note": "PARTIAL: the bytecode-level compile_correct theorem and the concurrency clause (shared *Program under concurrent use) are not proved; the digest "
            "injectivity is a hypothesis of cache_transparent. Trusted: Lean kernel; Spec; harness pretty-printer instead of the ANTLR parser.",
    "technique": "Lean 4 proof (cache refinement, rejection) + differential correspondence Spec vs compiler+VM",
    "design_ref": "5 (C08), 3.2, 3.3",
}


def run(ctx):
    ctx.cov["trusted_base"] = TRUSTED + ["digest injectivity on the scripts in use is a hypothesis of cache_transparent, not an axiom"]
    ctx.cov["partial"] = "compile_correct at bytecode level not yet proved; concurrency of a shared cached program only observed"
    ctx.l1()
    if run_syntax(ctx):  # front end (lexer+parser) on script texts; True = it served a --replay of one of its own cases
        return
    r = run_numscript(ctx, 2500 if ctx.quick else 100000)
    if r is None:
        return
    inputs, impl, model = r
    seen, nontrivial = set(), 0
    for inp in inputs:
        a, b = impl.get(inp["id"], {}), model.get(inp["id"], {})
        pa = {k: v for k, v in strip(a).items() if k not in ("lockR", "lockW")}
        pb = {k: v for k, v in b.items() if k not in ("lockR", "lockW")}
        if "unstable" in a:
            ctx.violation({"property": "C08", "class": "second-run-differs"}, "running the same compiled program twice gave different outcomes",
                          {"area": "numscript", "input": inp, "observed": a})
        if "panic" in a:
            continue  # a crash is C12's business
        if canon(pa) != canon(pb):
            ka, kb = a.get("err", "ok"), b.get("err", "ok")
            what = "source says %s, compiled program gives %s" % (kb, ka)
            sig = {"property": "C08", "class": "differs-from-source", "spec": kb, "impl": ka}
            if ka == kb == "ok":
                sig["fields"] = ",".join(sorted(k for k in pa if canon(pa.get(k)) != canon(pb.get(k))))
            ctx.violation(sig, what, {"area": "numscript", "input": inp, "observed": a, "source_says": b})
        f = features(inp)
        h = shash(inp["text"] + canon(inp["bal"]))
        if h not in seen and len(f) >= 6 and a.get("err") != "compile_error":
            nontrivial += 1
        seen.add(h)
    ctx.cov["evaluations"] = len(inputs)
    ctx.cov["distinct_nontrivial"] = nontrivial
    ctx.cov["rule"] = "same generator as C01 plus the ill-typed mutation stream; non-trivial = distinct compiled case using at least six distinct constructs"
    ctx.cov["samples"] = [{"text": i["text"], "impl": impl.get(i["id"])} for i in inputs[:2]]
    ctx.cov["input_distribution"] = distribution(inputs, impl)
