"""C08 — compiled programs do what the source says."""
from checks.numlib import *
from checks.syntaxlib import run_syntax

META = {
    "text": "Spec.run (Lean) is the definition of what the source text says. Bytecode level (model A2): Compile.compile reproduces the single pass of the Go "
            "compiler (resource table with constant de-duplication, APUSH/BUMP choreography, NeededBalances, Sources, every static rejection) and VM.run the "
            "stack machine with every Go panic site as an explicit outcome. Proved: compile_rejects (compile refuses exactly when the static rules `check` do, "
            "both directions, the two size limits being outcomes of their own), compile_accepts_checked, compile_static_rejects, compile_rejects_unchecked, "
            "compile_deterministic, compile_correct_partial (for the fragment: sends whose source is any nesting of account [with overdraft clauses, @world] | "
            "max | in-order and whose destination is an account, save, set_tx_meta, set_account_meta, print, fail: VM.run of the compiled program = Spec's "
            "statement semantics evalStmts + metadata merge, by frame lemmas per construct), opcode_table_matches / type_table_matches (decide, against tables "
            "regenerated from the Go sources on every run), rejected_not_run, cache_transparent(_seq) for every cache size and eviction policy. Ties: bytecode "
            "equality (instruction bytes, typed resources, needed balances, sources identical to the real compiler's on every generated program, same "
            "compile_error verdict), VM model vs real VM, end-to-end Spec vs compiler+VM.",
    "note": "PARTIAL: compile_correct is proved for the fragment above and from the resolved state on; source/destination allotments, ordered destinations "
            "(max/remaining/kept) and the equivalence of the two resolution stages (Spec.prepare/initBal vs SetVarsFromJSON/ResolveResources/ResolveBalances) rest "
            "on the differentials; so does the concurrency clause (shared *Program under concurrent use); the digest injectivity is a hypothesis of "
            "cache_transparent. Trusted: Lean kernel; Spec; harness pretty-printer instead of the ANTLR parser.",
    "technique": "Lean 4 proof (compiler model, rejection equivalence, frame lemmas / simulation VM vs Spec, cache refinement) + differential correspondence "
                 "(bytecode equality, VM model vs VM, Spec vs compiler+VM) + regenerated opcode/type tables",
    "design_ref": "5 (C08), 3.2, 3.3",
}


def run(ctx):
    ctx.cov["trusted_base"] = TRUSTED + TRUSTED_A2 + ["digest injectivity on the scripts in use is a hypothesis of cache_transparent, not an axiom"]
    ctx.cov["partial"] = ("compile_correct proved for the fragment {send from account|overdraft|max|in-order sources to an account, save, set_tx_meta, "
                           "set_account_meta, print, fail} from the resolved state on; allotments, ordered destinations, the resolution-stage "
                           "equivalence and the concurrency of a shared cached program are covered by the differentials only")
    regen_opcodes(ctx)
    ctx.l1()
    if run_syntax(ctx):  # front end (lexer+parser) on script texts; True = it served a --replay of one of its own cases
        return
    r = run_numscript(ctx, 2500 if ctx.quick else 100000)
    if r is None:
        return
    inputs, impl, model = r
    # ---- model A2: bytecode equality + VM model vs real VM, on the same inputs
    bc = run_bytecode(ctx, inputs)
    if bc is not None:
        compare_bytecode(ctx, inputs, bc[0], bc[1])
    seen, nontrivial = set(), 0
    for inp in inputs:
        a, b = impl.get(inp["id"], {}), model.get(inp["id"], {})
        pa = {k: v for k, v in strip(a).items() if k not in ("lockR", "lockW")}
        pb = {k: v for k, v in b.items() if k not in ("lockR", "lockW")}
        if "unstable" in a:
            ctx.violation({"property": "C08", "class": "second-run-differs"}, "running the same compiled program twice gave different outcomes",
                          {"area": "numscript", "input": inp, "observed": a})
        if "panic" in a:
            continue  # a crash is C12's business
        if canon(pa) != canon(pb):
            ka, kb = a.get("err", "ok"), b.get("err", "ok")
            what = "source says %s, compiled program gives %s" % (kb, ka)
            sig = {"property": "C08", "class": "differs-from-source", "spec": kb, "impl": ka}
            if ka == kb == "ok":
                sig["fields"] = ",".join(sorted(k for k in pa if canon(pa.get(k)) != canon(pb.get(k))))
            ctx.violation(sig, what, {"area": "numscript", "input": inp, "observed": a, "source_says": b})
        f = features(inp)
        h = shash(inp["text"] + canon(inp["bal"]))
        if h not in seen and len(f) >= 6 and a.get("err") != "compile_error":
            nontrivial += 1
        seen.add(h)
    ctx.cov["evaluations"] = len(inputs)
    ctx.cov["distinct_nontrivial"] = nontrivial
    ctx.cov["rule"] = "same generator as C01 plus the ill-typed mutation stream; non-trivial = distinct compiled case using at least six distinct constructs"
    ctx.cov["samples"] = [{"text": i["text"], "impl": impl.get(i["id"])} for i in inputs[:2]]
    ctx.cov["input_distribution"] = distribution(inputs, impl)
