"""C08 — compiled programs do what the source says."""
from checks.numlib import *

META = {
    "text": "Spec.run (Lean) is the definition of what the source text says. Bytecode level (model A2): Compile.compile reproduces the single pass of the Go "
            "compiler (resource table, APUSH/BUMP choreography, NeededBalances, Sources) and VM.run the stack machine; ties: bytecode equality (instruction "
            "bytes, typed resources, needed balances, sources identical to the real compiler's on every generated program, same compile_error verdict), VM "
            "model vs real VM, regenerated opcode/type tables (opcode_table_matches, type_table_matches by decide), end-to-end Spec vs compiler+VM. Theorems: "
            "rejected_not_run, compile_deterministic, compile_rejects (compile refuses exactly when the static rules do), compile_correct_partial, "
            "cache_transparent(_seq) for every cache size and eviction policy.",
    "note": "PARTIAL: compile_correct is proved for a fragment (see evidence.coverage.partial); the other constructs and the concurrency clause (shared *Program "
            "under concurrent use) rest on the differentials; the digest injectivity is a hypothesis of cache_transparent. Trusted: Lean kernel; Spec; harness "
            "pretty-printer instead of the ANTLR parser.",
    "technique": "Lean 4 proof (compiler model, rejection equivalence, frame lemmas, cache refinement) + differential correspondence (bytecode equality, VM model vs VM, Spec vs compiler+VM) + regenerated tables",
    "design_ref": "5 (C08), 3.2, 3.3",
}


def run(ctx):
    ctx.cov["trusted_base"] = TRUSTED + TRUSTED_A2 + ["digest injectivity on the scripts in use is a hypothesis of cache_transparent, not an axiom"]
    ctx.cov["partial"] = "compile_correct at bytecode level not yet proved; concurrency of a shared cached program only observed"
    regen_opcodes(ctx)
    ctx.l1()
    r = run_numscript(ctx, 2500 if ctx.quick else 100000)
    if r is None:
        return
    inputs, impl, model = r
    # ---- model A2: bytecode equality + VM model vs real VM, on the same inputs
    bc = run_bytecode(ctx, inputs)
    if bc is not None:
        compare_bytecode(ctx, inputs, bc[0], bc[1])
    seen, nontrivial = set(), 0
    for inp in inputs:
        a, b = impl.get(inp["id"], {}), model.get(inp["id"], {})
        pa = {k: v for k, v in strip(a).items() if k not in ("lockR", "lockW")}
        pb = {k: v for k, v in b.items() if k not in ("lockR", "lockW")}
        if "unstable" in a:
            ctx.violation({"property": "C08", "class": "second-run-differs"}, "running the same compiled program twice gave different outcomes",
                          {"area": "numscript", "input": inp, "observed": a})
        if "panic" in a:
            continue  # a crash is C12's business
        if canon(pa) != canon(pb):
            ka, kb = a.get("err", "ok"), b.get("err", "ok")
            what = "source says %s, compiled program gives %s" % (kb, ka)
            sig = {"property": "C08", "class": "differs-from-source", "spec": kb, "impl": ka}
            if ka == kb == "ok":
                sig["fields"] = ",".join(sorted(k for k in pa if canon(pa.get(k)) != canon(pb.get(k))))
            ctx.violation(sig, what, {"area": "numscript", "input": inp, "observed": a, "source_says": b})
        f = features(inp)
        h = shash(inp["text"] + canon(inp["bal"]))
        if h not in seen and len(f) >= 6 and a.get("err") != "compile_error":
            nontrivial += 1
        seen.add(h)
    ctx.cov["evaluations"] = len(inputs)
    ctx.cov["distinct_nontrivial"] = nontrivial
    ctx.cov["rule"] = "same generator as C01 plus the ill-typed mutation stream; non-trivial = distinct compiled case using at least six distinct constructs"
    ctx.cov["samples"] = [{"text": i["text"], "impl": impl.get(i["id"])} for i in inputs[:2]]
    ctx.cov["input_distribution"] = distribution(inputs, impl)
