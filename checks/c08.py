"""C08 — compiled programs do what the source says."""
import json
from checks.numlib import *
from checks.syntaxlib import run_syntax

META = {
    "text": "Spec.run (Lean) is the definition of what the source text says. Bytecode level (model A2): Compile.compile reproduces the single pass of the Go "
            "compiler (resource table with constant de-duplication, APUSH/BUMP choreography, NeededBalances, Sources, every static rejection) and VM.run the "
            "stack machine with every Go panic site as an explicit outcome. Proved: compile_correct — for EVERY program the compiler model accepts (the whole "
            "language: sources account|overdraft|max|in-order|allotment, destinations account|ordered max/remaining/kept|allotment, send-all, save, metadata, "
            "print, fail; variables of every origin), every variable map and every store, VM.run of the compiled program (SetVarsFromJSON, ResolveResources, "
            "ResolveBalances, Execute, metadata merge) yields exactly the postings, transaction metadata, account metadata and printed values Spec.run yields, "
            "or an error of the same class, and never a panic. Its parts: resolution_stage_eq (the VM's resolution stage fails exactly when Spec.prepare / "
            "checkBalanceVars do, same class, and otherwise resolves every resource to its value under Spec's environment and builds exactly Spec's initial "
            "balances: NeededBalances resolved = Spec.needed), frame lemmas per construct (expr_ok, source_ok, takeFromSource_ok, dest_ok/kd_ok/caps_ok/"
            "allot_ok, allotment_ok, allotSources_ok, stmt_okQ/stmt_ok2), compile_correct_text / front_wellFormed (the same from the TEXT: what lex+parse accept is well "
            "formed), compile_correct_frag and compile_correct_partial (earlier, weaker statements, kept). "
            "Also: compile_rejects (compile refuses exactly when the static rules `check` do, the two size limits being outcomes of their own), "
            "compile_accepts_checked, compile_static_rejects, compile_rejects_unchecked, compile_deterministic, opcode_table_matches / type_table_matches "
            "(decide, against tables regenerated from the Go sources on every run), rejected_not_run, cache_transparent(_seq) for every cache size and "
            "eviction policy. Ties: bytecode equality (instruction bytes, typed resources, needed balances, sources identical to the real compiler's on every "
            "generated program, same compile_error verdict), VM model vs real VM, end-to-end Spec vs compiler+VM (each compiled program executed twice to detect state left in it, "
            "then a third time on a SECOND variable map — assets, accounts, monetaries, numbers switched — and held to a fresh compilation of the same text on that "
            "map, then once more on the first map: a compiled program must not remember a run, program-remembers-a-run; monetary literals whose asset is a "
            "variable, `[$cur 100]`, occur in send amounts, caps, overdrafts, metadata values and saves of 8-9 % of the programs; the ill-typed stream "
            "contains `send [A *]` from a source that is / ends with an account `allowing unbounded overdraft` or @world, 12-23 texts per quick run, which "
            "compile (Lean) and compiler.Compile (Go) must both refuse: rejected_not_run at work); the "
            "engine's real compilation cache (command.NewCompiler, sizes 1 / 2 / 1024) is fed sequences of near-identical texts (blanks in strings and in the "
            "multi-word overdraft tokens, comments, CRLF, trailing newline, letter case, one digit) and must hand out, at every position, exactly what a fresh "
            "compiler.Compile of that text gives (cache-not-transparent); the corpus of that stream (corpus/nscache/weak-keys.jsonl, tools/collide) holds pairs of "
            "TxToScriptData texts of different posting-list shapes that collide under 11 weak 32-bit keys (CRC-32 x2, FNV x2, Adler-32, two multiplier hashes, 4-byte "
            "truncations of SHA-256 / MD5 / SHA-1): the injectivity hypothesis of cache_transparent is exercised where a weaker key would break it (a corpus of known-weak "
            "digests, not a proof about every key).",
    "note": "compile_correct has three side conditions (Script.wellFormed), none a restriction of the language: at least one statement (the grammar requires "
            "it), in-order source lists and allotments shorter than 2^64 (their length is an operand read through big.Int.Uint64), no portion literal with a "
            "zero denominator (big.Rat has none; the parser produces none) — front_wellFormed proves that the front-end model only produces such scripts from "
            "texts shorter than 2^64 characters, so compile_correct_text (text in, observations out) has no hypothesis on the syntax tree. The theorems are "
            "about the compiler and VM MODELS; that the models are the Go compiler and VM rests on the bytecode-equality and VM differentials. PARTIAL for the "
            "concurrency clause (shared *Program under concurrent use: covered by the differential only); the digest injectivity is a hypothesis of "
            "cache_transparent. Trusted: Lean kernel; Spec; harness pretty-printer instead of the ANTLR parser.",
    "technique": "Lean 4 proof (compiler model, rejection equivalence, resolution-stage simulation, frame lemmas / simulation VM vs Spec for every construct, "
                 "cache refinement) + differential correspondence (bytecode equality, VM model vs VM, Spec vs compiler+VM) + regenerated opcode/type tables",
    "design_ref": "5 (C08), 3.2, 3.3",
}


def _replay_area(ctx):
    if not ctx.replay_file:
        return None
    try:
        return json.load(open(ctx.replay_file)).get("replay", {}).get("area")
    except Exception:
        return None


def run_cache(ctx, build=True, prop="C08"):
    """the real command.NewCompiler(size) (sha256 key over a gcache LFU) on sequences of near-identical texts: at every position the
    program (or refusal) it hands out must be the one a fresh compiler.Compile of that very text gives"""
    if build and not ctx.ensure_harness():
        return
    r = pipeline(ctx, "nscache", 1500 if ctx.quick else 60000, model=False)
    if r is None:
        return
    inputs, impl, _ = r
    st = collections.Counter()
    for inp in inputs:
        out = impl.get(inp["id"], {})
        st["sequences"] += 1
        st["cache_size_%s" % inp.get("size")] += 1
        if "steps" not in out:
            ctx.violation({"property": prop, "class": "cache-not-transparent", "effect": "panic" if "panic" in out else "no-result"},
                          "the compilation cache did not answer: %s" % canon(out)[:200], {"area": "nscache", "input": inp, "observed": out})
            continue
        texts = inp["texts"]
        for k, step in enumerate(out["steps"]):
            st["compilations"] += 1
            st["repeats_of_an_earlier_text"] += 1 if texts[k] in texts[:k] else 0
            st["near_identical_to_an_earlier_text"] += 1 if k and texts[k] not in texts[:k] else 0
            st["texts_the_language_rejects"] += 1 if step["fresh"].get("err") else 0
            for m in (inp.get("muts") or [[]] * len(texts))[k]:
                st["variation:" + m] += 1
            if canon(step["cached"]) == canon(step["fresh"]):
                continue
            ce, fe = bool(step["cached"].get("err")), bool(step["fresh"].get("err"))
            effect = ("hands-out-a-program-for-a-text-the-language-rejects" if fe and not ce else
                      "refuses-a-text-the-language-accepts" if ce and not fe else "hands-out-the-program-of-another-text")
            try:
                shown = bytes.fromhex(texts[k]).decode("utf-8", "replace")
            except Exception:
                shown = "?"
            ctx.violation({"property": prop, "class": "cache-not-transparent", "effect": effect},
                          "cache of size %s, text no. %d of the sequence (%r): %s" % (inp.get("size"), k + 1, shown[:120], effect.replace("-", " ")),
                          {"area": "nscache", "input": inp, "observed": out, "position": k})
            break
    ctx.cov["compilation_cache"] = dict(st)
    return len(inputs)


def run(ctx):
    ctx.cov["trusted_base"] = TRUSTED + TRUSTED_A2 + ["digest injectivity on the scripts in use is a hypothesis of cache_transparent, not an axiom"]
    ctx.cov["partial"] = ("compile_correct is proved for the whole language about the compiler and VM MODELS (side conditions: one statement at least, lists "
                           "shorter than 2^64, no zero-denominator portion literal); that the models are the Go code, and the concurrency of a shared "
                           "cached program, are covered by the differentials only")
    regen_opcodes(ctx)
    ctx.l1()
    if _replay_area(ctx) == "nscache":
        run_cache(ctx)
        return
    if run_syntax(ctx):  # front end (lexer+parser) on script texts; True = it served a --replay of one of its own cases
        return
    ncache = 0
    if not ctx.replay_file:
        ncache = run_cache(ctx, build=False) or 0   # run_syntax has just built the harness
    r = run_numscript(ctx, 2500 if ctx.quick else 100000)
    if r is None:
        return
    inputs, impl, model = r
    # ---- model A2: bytecode equality + VM model vs real VM, on the same inputs
    bc = run_bytecode(ctx, inputs)
    if bc is not None:
        compare_bytecode(ctx, inputs, bc[0], bc[1])
    seen, nontrivial = set(), 0
    rp = Replays(ctx, inputs)

    def proj(o):
        return {k: v for k, v in strip(o).items() if k not in ("lockR", "lockW")}
    for inp in inputs:
        a, b = impl.get(inp["id"], {}), model.get(inp["id"], {})
        pa, pb = proj(a), proj(b)
        if "unstable" in a:
            rp.violation({"property": "C08", "class": "second-run-differs"}, "running the same compiled program twice gave different outcomes",
                         inp, a, lambda o: "unstable" in o)
        if "remembers" in a:
            m = a["remembers"]
            rp.violation({"property": "C08", "class": "program-remembers-a-run"},
                         "run %s of ONE compiled program (%s) differs from a fresh compilation of the same text on the same values: the program "
                         "kept something of an earlier run" % (m.get("run"), m.get("on")), inp, a, lambda o: "remembers" in o)
        if "panic" in a:
            continue  # a crash is C12's business
        if canon(pa) != canon(pb):
            ka, kb = a.get("err", "ok"), b.get("err", "ok")
            what = "source says %s, compiled program gives %s" % (kb, ka)
            sig = {"property": "C08", "class": "differs-from-source", "spec": kb, "impl": ka}
            if ka == kb == "ok":
                sig["fields"] = ",".join(sorted(k for k in pa if canon(pa.get(k)) != canon(pb.get(k))))
            rp.violation(sig, what, inp, a, lambda o, pb=pb: "panic" not in o and canon(proj(o)) != canon(pb), extra={"source_says": b})
    ctx.cov["replay_isolation"] = dict(rp.stats)
    ctx.cov["second_variable_map"] = rebind_stats(inputs, impl)
    ctx.cov["focused_shapes"] = focus_stats(inputs, impl)
    for inp in inputs:
        a = impl.get(inp["id"], {})
        f = features(inp)
        h = shash(inp["text"] + canon(inp["bal"]))
        if h not in seen and len(f) >= 6 and a.get("err") != "compile_error":
            nontrivial += 1
        seen.add(h)
    ctx.cov["evaluations"] = len(inputs) + ncache
    ctx.cov["distinct_nontrivial"] = nontrivial
    ctx.cov["rule"] = ("same generator as C01 plus the ill-typed mutation stream; non-trivial = distinct compiled case using at least six distinct constructs; "
                       "plus sequences of near-identical texts through the real compilation cache (compilation_cache)")
    ctx.cov["samples"] = [{"text": i["text"], "impl": impl.get(i["id"])} for i in inputs[:2]]
    ctx.cov["input_distribution"] = distribution(inputs, impl)
