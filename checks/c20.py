"""C20 — filter values are data, never SQL."""
import random
import re

from vlib.common import *

META = {
    "text": "Lean theorems about Model.SqlText: bun's string and JSON literal rendering always scans as exactly one PostgreSQL string literal "
            "(bound_values_are_one_literal, json_values_are_one_literal), a literal with a quote-safe body has the same token kinds in any "
            "context (frame_determines_shape), and every leaf / expression the account, transaction, aggregated-balance and log query contexts "
            "render for a client value has the token kinds it has for the harmless twin of that value, or is rejected (address_is_data, "
            "address_on_tx_is_data, rejected_or_data, key_rejected_or_data (every key STRING: of the key only a captured metadata key / asset name reaches the statement, inside a literal), "
            "filter_rejected_or_data).  The model is tied to the real v1/v2 routers + controllers + ledgerstore "
            "over bun and a recording database/sql driver: the model's where-fragment must be the only place where the captured SQL of the hostile "
            "run differs from its twin's; an independent Python tokenizer evaluates the property on the captured SQL (L3) and is cross-checked "
            "against the Lean scanner on every captured statement and on random metacharacter soup.  Besides hostile VALUES through the keys of the catalogue the generator sends "
            "hostile KEYS (SQL in front of / glued with a dot to / behind / inside the brackets of every known key, every table-qualified known key, every column of the tables of "
            "the schema of this run and a list of plausible words; the twin blanks the fragment and keeps the base) and asks the code of this run which candidate keys it accepts: a key "
            "it accepts that the catalogue does not list gets the whole hostile-value set; 'accepted key unknown to the model' is a finding of the differential by itself, and the "
            "model-independent tokenizer oracle judges those cases all the same.",
    "note": "Trusted: Lean kernel; Model.SqlText.lex as a model of PostgreSQL's scanner with standard_conforming_strings=on (documented simplifications "
            "none of which moves a literal boundary); bun 1.1.16 AppendString/AppendJSON and Go's encoding/json string escaping are modelled, tied by the "
            "differential, not proved from their sources; SQL is captured as text, never executed (no PostgreSQL in the sandbox). "
            "standard_conforming_strings=off (pre-9.1 default) would make backslashes in bound strings significant: out of scope, assumption recorded.",
    "technique": "Lean 4 proofs over an action-emitting scanner state machine (literal text never enters the control state) + SQL-text capture differential",
    "design_ref": "5 (C20), 6 #21, 8",
}

MARK = "zq7"

# ---------------------------------------------------------------- independent PostgreSQL tokenizer (L3)
# Written against the PostgreSQL documentation (4.1 Lexical Structure) and scan.l, standard_conforming_strings = on.
# Deliberately not a transliteration of the Lean state machine: index based, with look-ahead.

WS = " \t\n\r\f\v"
OPCH = "+-*/<>=~!@#%^&|`?"
OPSPECIAL = "~!@#%^&|`?"


def _istart(c):
    return ("a" <= c <= "z") or ("A" <= c <= "Z") or c == "_" or ord(c) >= 128


def _icont(c):
    return _istart(c) or ("0" <= c <= "9") or c == "$"


def _tagcont(c):
    return _istart(c) or ("0" <= c <= "9")


def _quoted(sql, i, n, escapes):
    """sql[i] is the opening quote.  Returns (content, next index, terminated)."""
    out = []
    j = i + 1
    while True:
        if j >= n:
            return "".join(out), n, False
        c = sql[j]
        if c == "\\" and escapes:
            out.append(c)
            if j + 1 < n:
                out.append(sql[j + 1])
                j += 2
                continue
            return "".join(out), n, False
        if c == "'":
            if j + 1 < n and sql[j + 1] == "'":
                out.append("'")
                j += 2
                continue
            # closing quote; SQL lets the literal continue after whitespace that contains a newline
            k = j + 1
            nl = False
            while k < n and sql[k] in WS:
                nl = nl or sql[k] in "\n\r"
                k += 1
            if nl and k < n and sql[k] == "'":
                j = k + 1
                continue
            return "".join(out), j + 1, True
        out.append(c)
        j += 1


def _op_tokens(run):
    if len(run) > 1 and not any(c in OPSPECIAL for c in run):
        k = len(run)
        while k > 1 and run[k - 1] in "+-":
            k -= 1
        return [("op:" + run[:k], "")] + [("op:" + c, "") for c in run[k:]]
    return [("op:" + run, "")]


def tokenize(sql, spans=None):
    """tokens as (kind, text); when `spans` is a list it receives one (start, end) character range per token"""
    toks = []
    i, n = 0, len(sql)
    start, done = 0, 0
    while True:
        if spans is not None and len(toks) > done:
            new = toks[done:]
            if len(new) == 1:
                spans.append((start, i))
            else:                       # one run of operator characters scanned as several operators
                j = start
                for k, _ in new:
                    spans.append((j, j + len(k) - 3))
                    j += len(k) - 3
        done, start = len(toks), i
        if i >= n:
            break
        c = sql[i]
        if c in WS:
            i += 1
        elif sql.startswith("--", i):
            while i < n and sql[i] not in "\n\r":
                i += 1
        elif sql.startswith("/*", i):
            depth, i = 1, i + 2
            while i < n and depth:
                if sql.startswith("/*", i):
                    depth, i = depth + 1, i + 2
                elif sql.startswith("*/", i):
                    depth, i = depth - 1, i + 2
                else:
                    i += 1
            if depth:
                toks.append(("bad:unterminated comment", ""))
        elif c == "'":
            s, i, ok = _quoted(sql, i, n, False)
            toks.append(("str", s) if ok else ("bad:unterminated string", ""))
        elif c in "eE" and i + 1 < n and sql[i + 1] == "'":
            s, i, ok = _quoted(sql, i + 1, n, True)
            toks.append(("estr", s) if ok else ("bad:unterminated string", ""))
        elif c in "bBxXnN" and i + 1 < n and sql[i + 1] == "'":
            s, i, ok = _quoted(sql, i + 1, n, False)
            toks.append(("str", s) if ok else ("bad:unterminated string", ""))
        elif c == '"':
            j, out, ok = i + 1, [], False
            while j < n:
                if sql[j] == '"':
                    if j + 1 < n and sql[j + 1] == '"':
                        out.append('"')
                        j += 2
                        continue
                    ok = True
                    break
                out.append(sql[j])
                j += 1
            toks.append(("qid:" + "".join(out), "") if ok else ("bad:unterminated quoted identifier", ""))
            i = j + 1 if ok else n
        elif c == "$":
            j = i + 1
            if j < n and "0" <= sql[j] <= "9":
                while j < n and "0" <= sql[j] <= "9":
                    j += 1
                toks.append(("param:" + sql[i + 1:j], ""))
                i = j
                continue
            if j < n and _istart(sql[j]):
                while j < n and _tagcont(sql[j]):
                    j += 1
            if j < n and sql[j] == "$":
                tag = sql[i + 1:j]
                body, k, closed = [], j + 1, False
                while k < n:
                    if sql[k] != "$":
                        body.append(sql[k])
                        k += 1
                        continue
                    m = k + 1
                    if m < n and _istart(sql[m]):
                        while m < n and _tagcont(sql[m]):
                            m += 1
                    if m < n and sql[m] == "$" and sql[k + 1:m] == tag:
                        closed, k = True, m + 1
                        break
                    body.append(sql[k:m])
                    k = m
                toks.append(("dstr", "".join(body)) if closed else ("bad:unterminated dollar-quoted string", ""))
                i = k
            else:
                toks.append(("p:$", ""))
                i += 1
        elif c == ":":
            if sql.startswith("::", i):
                toks.append(("cast", ""))
                i += 2
            elif sql.startswith(":=", i):
                toks.append(("op::=", ""))
                i += 2
            else:
                toks.append(("p::", ""))
                i += 1
        elif "0" <= c <= "9":
            j = i
            while j < n and (("0" <= sql[j] <= "9") or sql[j] == "."):
                j += 1
            toks.append(("num", sql[i:j]))
            i = j
        elif _istart(c):
            j = i
            while j < n and _icont(sql[j]):
                j += 1
            toks.append(("id:" + sql[i:j], ""))
            i = j
        elif c in OPCH:
            j = i
            while j < n and sql[j] in OPCH:
                if j > i and (sql.startswith("--", j) or sql.startswith("/*", j)):
                    break
                j += 1
            toks += _op_tokens(sql[i:j])
            i = j
        else:
            toks.append(("p:" + c, ""))
            i += 1
    return toks


LITERAL = ("str", "estr", "dstr")
_tok_cache = {}


def kinds_of(sql):
    r = _tok_cache.get(sql)
    if r is None:
        t = tokenize(sql)
        r = (tuple(k for k, _ in t), tuple(s for k, s in t if k in LITERAL), t)
        _tok_cache[sql] = r
    return r


# ---------------------------------------------------------------- helpers

META_RE = re.compile(r"['\"\\;$?\x00]|--|/\*")


def nontrivial(s):
    return bool(META_RE.search(s))


FAMILY = {"accounts.list": "accounts", "accounts.count": "accounts", "accounts.get": "accounts", "balances.list": "accounts",
          "balances.agg": "balances", "transactions.list": "transactions", "transactions.count": "transactions", "logs.list": "logs"}


def family(ep):
    return FAMILY[ep]


def key_class(inp):
    k = inp.get("qkey") or inp["key"]
    if inp.get("family") == "hostile-key":
        return "hostile-key"
    if inp.get("discovered"):
        return "key-unknown-to-the-model"
    if inp["pos"] in ("key", "op", "pit", "path"):
        return inp["pos"]
    if k.startswith("metadata"):
        return "metadata-key" if inp["pos"] == "metakey" else "metadata"
    if k.startswith("balance["):
        return "balance-asset" if inp["pos"] == "asset" else "balance[asset]"
    return k


def row_of(inp):
    return (inp["api"], inp["ep"], inp.get("qkey") or inp["key"], inp["op"], inp["pos"], inp.get("vtype", ""))


def rejected(o):
    return not o.get("sql") and (o.get("status", 0) >= 400 or "panic" in o)


def oracle(inp, out):
    """The property on the implementation's own output.  Returns [(signature, what, detail)]."""
    h, t = out["h"], out["t"]
    base = {"endpoint": family(inp["ep"]), "key": key_class(inp)}
    if "panic" in h:
        return [(dict(base, **{"class": "panic"}), "harness-level panic: %s" % h["panic"], {})]
    if rejected(h) or not h.get("sql"):
        return []
    v = []
    hostile = inp["hostile"]
    for n, q in enumerate(h["sql"]):
        ks, _, toks = kinds_of(q)
        for k, s in toks:
            if k.startswith("bad:"):
                v.append((dict(base, **{"class": "token-shape"}), "the statement sent for %r does not even scan: %s" % (hostile, k), {"statement": q, "rule": "unterminated"}))
        if MARK in hostile:
            for k, s in toks:
                txt = s if k in LITERAL else k
                if MARK in txt and k not in LITERAL:
                    v.append((dict(base, **{"class": "token-shape"}),
                              "client text %r appears in token %r, which is not a quoted literal" % (hostile, k), {"statement": q, "rule": "outside-literal"}))
                    break
    if t.get("sql") and not v:
        if len(t["sql"]) != len(h["sql"]):
            v.append((dict(base, **{"class": "token-shape"}), "%d statements for %r, %d for its harmless twin" % (len(h["sql"]), hostile, len(t["sql"])), {}))
        else:
            for q, q2 in zip(h["sql"], t["sql"]):
                a, b = kinds_of(q)[0], kinds_of(q2)[0]
                if a != b:
                    i = next((i for i, (x, y) in enumerate(zip(a, b)) if x != y), min(len(a), len(b)))
                    v.append((dict(base, **{"class": "token-shape"}),
                              "value %r changes the structure of the SQL: %d tokens against %d for the harmless twin %r; first difference at token %d: %s vs %s"
                              % (hostile, len(a), len(b), inp["harmless"], i, list(a[i:i + 4]), list(b[i:i + 4])),
                              {"statement": q, "twin_statement": q2, "rule": "kinds-differ-from-twin"}))
                    break
    return v[:1]


def l2(ctx, inputs, impl, model):
    """correspondence: the model's outcome and where-fragment against the captured SQL"""
    bad = {"outcome": 0, "fragment": 0, "frame": 0, "twin": 0}
    unknown_keys = set()
    cmp_ = {"outcome": 0, "fragment": 0, "frame": 0}
    for inp in inputs:
        i = inp["id"]
        o, m = impl.get(i), model.get(i)
        if o is None or m is None or "driver_error" in m:
            bad["outcome"] += 1
            if len(ctx.l2_broken) < 5:
                ctx.l2_broken.append({"stream": "sqltext:missing", "id": i, "input": inp, "impl": o, "model": m})
            continue
        if not m.get("twin_ok", False):
            bad["twin"] += 1
            if len(ctx.l2_broken) < 5:
                ctx.l2_broken.append({"stream": "sqltext:twin", "id": i, "input": inp, "impl": None, "model": m})
        frags = {}
        for side in ("h", "t"):
            mo, io = m[side], o[side]
            if "skip" in mo:
                continue
            cmp_["outcome"] += 1
            what = None
            if "rejected" in mo:
                if not rejected(io):
                    what = "model rejects (%s), implementation sent SQL / answered %s" % (mo["rejected"], io.get("status"))
                    if inp.get("discovered") or inp.get("family") == "hostile-key":
                        # the code accepts a filter key the model does not know: a finding of the differential by itself
                        # (the hostile values / keys sent through it are judged by the tokenizer oracle all the same)
                        bad["accepted_key_unknown_to_the_model"] = bad.get("accepted_key_unknown_to_the_model", 0) + 1
                        unknown_keys.add("%s %s %s" % (inp["api"], inp["ep"], (inp.get("qkey") or inp["key"]) if inp.get("discovered") else inp["hostile" if side == "h" else "harmless"]))
                        if not any(b.get("stream") == "sqltext:accepted-key-unknown-to-the-model" for b in ctx.l2_broken):
                            ctx.l2_broken.append({"stream": "sqltext:accepted-key-unknown-to-the-model", "id": i, "input": inp, "side": side, "impl": io, "model": mo, "what": what})
                        continue
            elif rejected(io):
                what = "implementation rejected (status %s), model renders %r" % (io.get("status"), mo)
            elif "frag" in mo:
                cmp_["fragment"] += 1
                q = io["sql"][-1]
                if q.count("(" + mo["frag"] + ")") < 1:
                    bad["fragment"] += 1
                    if len(ctx.l2_broken) < 5:
                        ctx.l2_broken.append({"stream": "sqltext:fragment", "id": i, "input": inp, "side": side, "impl": q, "model": mo["frag"]})
                else:
                    frags[side] = (q, mo["frag"])
            if what:
                bad["outcome"] += 1
                if len(ctx.l2_broken) < 5:
                    ctx.l2_broken.append({"stream": "sqltext:outcome", "id": i, "input": inp, "side": side, "impl": io, "model": mo, "what": what})
        if len(frags) == 2:
            cmp_["frame"] += 1
            (qh, fh), (qt, ft) = frags["h"], frags["t"]
            if qh.replace("(" + fh + ")", "(\u00a7)") != qt.replace("(" + ft + ")", "(\u00a7)"):
                bad["frame"] += 1
                if len(ctx.l2_broken) < 5:
                    ctx.l2_broken.append({"stream": "sqltext:frame", "id": i, "input": inp, "impl": [qh, qt], "model": [fh, ft]})
        elif "nofilter" in m["h"] and "nofilter" in m["t"] and not rejected(o["h"]) and not rejected(o["t"]):
            cmp_["frame"] += 1
            if o["h"]["sql"] != o["t"]["sql"]:
                bad["frame"] += 1
                if len(ctx.l2_broken) < 5:
                    ctx.l2_broken.append({"stream": "sqltext:nofilter", "id": i, "input": inp, "impl": [o["h"]["sql"], o["t"]["sql"]], "model": m})
    for k in cmp_:
        ctx.cov.setdefault("compared", {})["sqltext:" + k] = cmp_[k]
    for k in bad:
        ctx.cov.setdefault("disagreements", {})["sqltext:" + k] = bad[k]
    ctx.cov["keys_accepted_by_the_code_and_unknown_to_the_model"] = sorted(unknown_keys)[:40]


SOUP = ["'", "''", "\\", "\\'", '"', '""', "$$", "$a$", "$a", "$1", "$", "--", "/*", "*/", ";", "?", "(", ")", "::", ":", ":=", " ", "\n", "\r\n", "\t",
        "a", "E", "e", "E'", "b'", "x", "_", "1", "1.5", ".", ",", "=", "<>", "<=", "+-", "-", "+", "@>", "@@", "->>", "|", "é", "select", " or ", "$b$", "$a$b$a$"]


def lexer_crosscheck(ctx, sqls, n_soup):
    """Lean scanner (Model.SqlText.lex, the one the theorems are about) vs the Python tokenizer of the oracle."""
    rnd = random.Random(ctx.seed * 7919 + 17)
    rows = [{"id": k, "sql": s} for k, s in enumerate(sqls)]
    for k in range(n_soup):
        rows.append({"id": len(rows), "sql": "".join(rnd.choice(SOUP) for _ in range(rnd.randint(1, 14)))})
    inf, outf = ctx.path("sqllex.in.jsonl"), ctx.path("sqllex.model.jsonl")
    write_jsonl(inf, rows)
    p = run_driver("sqllex", inf, outf)
    if p.returncode != 0:
        ctx.l2_broken.append({"stream": "sqllex-driver", "detail": (p.stdout + p.stderr)[-2000:]})
        return
    model = {r["id"]: r["out"] for r in read_jsonl(outf)}
    bad = 0
    for r in rows:
        m = model.get(r["id"])
        ks, lits, _ = kinds_of(r["sql"])
        if m is None or list(ks) != m.get("kinds") or list(lits) != m.get("lits"):
            bad += 1
            if bad <= 3:
                ctx.l2_broken.append({"stream": "sqllex:lean-vs-python", "id": r["id"], "input": r, "impl": {"kinds": list(ks), "lits": list(lits)}, "model": m})
    ctx.cov.setdefault("compared", {})["sqllex:lean-vs-python"] = len(rows)
    ctx.cov.setdefault("disagreements", {})["sqllex:lean-vs-python"] = bad
    ctx.cov["lexer_crosscheck"] = {"captured_statements": len(sqls), "random_metacharacter_strings": n_soup}


def observations(ctx):
    """Outside C20's quantifier (the cursor is pagination state, not a list filter), recorded so that it is not lost:
    does the `column` field of a forged cursor reach the SQL text?"""
    import base64
    cur = {"pageSize": 15, "column": "id; select %s --" % MARK, "order": 1, "filters": {"qb": None, "pageSize": 15, "options": {}}}
    c = base64.urlsafe_b64encode(json.dumps(cur).encode()).decode().rstrip("=")
    rows = [{"id": k, "raw": {"api": api, "method": "GET", "url": "/l0/%s?cursor=%s" % (path, c), "body": ""}}
            for k, (api, path) in enumerate([("v2", "transactions"), ("v2", "logs"), ("v1", "transactions"), ("v1", "logs")])]
    inf, outf = ctx.path("probe.in.jsonl"), ctx.path("probe.out.jsonl")
    write_jsonl(inf, rows)
    p = run_harness(["sqltext", "exec", "-in", inf, "-out", outf])
    if p.returncode != 0:
        return
    obs = []
    for r, o in zip(rows, read_jsonl(outf)):
        for q in o["out"]["h"].get("sql") or []:
            hit = any(MARK in k for k, _ in tokenize(q) if k not in LITERAL)
            obs.append({"request": r["raw"]["api"] + " GET " + r["raw"]["url"].split("?")[0] + "?cursor=<base64 of " + json.dumps(cur) + ">",
                        "sql": q, "cursor_text_outside_literal": hit})
    ctx.cov["out_of_quantifier_observations"] = obs


def schema_columns():
    """table.column for every column of every table created by the ledgerstore migrations of THIS run's /repo (candidates for filter keys)"""
    d = os.path.join(REPO, "internal", "storage", "ledgerstore", "migrations")
    out = []
    if not os.path.isdir(d):
        return out
    for f in sorted(os.listdir(d)):
        if not f.endswith(".sql"):
            continue
        src = open(os.path.join(d, f), errors="replace").read()
        for m in re.finditer(r"create\s+table\s+(?:if\s+not\s+exists\s+)?\"?(\w+)\"?\s*\((.*?)\n\)\s*;", src, re.S | re.I):
            for line in m.group(2).split("\n"):
                w = re.match(r"\s*\"?([a-z_][a-z0-9_]*)\"?\s+[a-z]", line, re.I)
                if w and w.group(1).lower() not in ("primary", "unique", "constraint", "foreign", "check", "exclude", "like"):
                    out.append("%s.%s" % (m.group(1), w.group(1)))
    return sorted(set(out))


def run(ctx):
    ctx.cov["trusted_base"] = [
        "Lean 4.33 kernel; axioms allowed: propext, Classical.choice, Quot.sound",
        "Model.SqlText.lex as a model of PostgreSQL's scanner (standard_conforming_strings = on); cross-checked on every run against an independently written Python tokenizer",
        "bun 1.1.16 BaseDialect.AppendString / AppendJSON and Go encoding/json string escaping: modelled (bunQuote, jsonBody, goJson), tied by the differential on the captured SQL, not proved from their sources",
        "Go harness: real v1/v2 chi routers + controllers + ledgerstore.Store (overlay constructor NewForVerif) over bun/pgdialect and a recording database/sql driver; SQL is captured, never executed",
    ]
    ctx.assumptions += [
        "the server runs with standard_conforming_strings = on (PostgreSQL default since 9.1); bun's quoting does not escape backslashes",
        "client strings are Unicode text (Go replaces invalid UTF-8 by U+FFFD before it reaches the store)",
        "numbers inside JSON filter values are integers below 2^53 in the differential (floats are rendered by strconv, not client-controlled text)",
        "the cursor parameter is pagination state, not a list filter: out of C20's quantifier (see notes)",
    ]
    ctx.l1()
    if not (ctx.ensure_driver() and ctx.ensure_harness()):
        return
    cols = schema_columns()
    ctx.cov["schema_columns_read"] = len(cols)
    if cols:
        os.environ["VERIF_SQL_COLUMNS"] = ",".join(cols)
    n = 8 if ctx.quick else 1200
    r = pipeline(ctx, "sqltext", n)
    if r is None:
        return
    inputs, impl, model = r
    l2(ctx, inputs, impl, model)

    seen, rows = set(), {}
    stats = {"accepted_as_data": 0, "rejected": 0, "no_sql": 0, "twin_rejected_only": 0}
    sqls = {}
    for inp in inputs:
        out = impl.get(inp["id"])
        if out is None:
            continue
        for sig, what, detail in oracle(inp, out):
            sig = dict(sig, property="C20")
            ctx.violation(sig, what, {"area": "sqltext", "input": inp, "request": out["h"].get("request"), "twin_request": out["t"].get("request"),
                                      "observed": dict(detail, status=out["h"].get("status"))})
        h, t = out["h"], out["t"]
        if rejected(h):
            stats["rejected"] += 1
        elif not h.get("sql"):
            stats["no_sql"] += 1
        else:
            stats["accepted_as_data"] += 1
            if rejected(t):
                stats["twin_rejected_only"] += 1
        for side in (h, t):
            for q in side.get("sql") or []:
                sqls[q] = 1
        row = row_of(inp)
        rr = rows.setdefault(row, {"strings": 0, "nontrivial": 0, "sql": 0, "rejected": 0})
        key = (row, inp["hostile"])
        if key not in seen:
            seen.add(key)
            rr["strings"] += 1
            if nontrivial(inp["hostile"]):
                rr["nontrivial"] += 1
        rr["rejected" if rejected(h) else "sql"] += 1
    fam = {}
    for inp in inputs:
        f = inp.get("family")
        out = impl.get(inp["id"])
        if not f or out is None:
            continue
        e = fam.setdefault(f, {"cases": 0, "rejected": 0, "sent_sql": 0, "twin_sent_sql": 0})
        e["cases"] += 1
        e["rejected" if rejected(out["h"]) else "sent_sql"] += 1
        e["twin_sent_sql"] += 0 if rejected(out["t"]) or not out["t"].get("sql") else 1
    ctx.cov["key_families"] = fam
    lexer_crosscheck(ctx, list(sqls), 1500 if ctx.quick else 60000)
    per_row = {}
    for inp in inputs:
        if not inp.get("corpus"):
            per_row[row_of(inp)] = per_row.get(row_of(inp), 0) + 1
    n_fixed = (min(per_row.values()) - n) if per_row else 0

    observations(ctx)
    ctx.cov["evaluations"] = len(inputs)
    ctx.cov["distinct_nontrivial"] = sum(r["nontrivial"] for r in rows.values())
    ctx.cov["rule"] = ("catalogue of every (api, endpoint, filter key, operator, position of the client string, JSON type of the value) the v1 query "
                       "parameters and v2 bodies offer (%d rows) x %d fixed hostile/plain strings (+ the corpus) + %d seeded random compositions of SQL/bun/JSON "
                       "metacharacters per row; each case is run with the string and with its harmless twin (same length, every character 'a', ':' kept "
                       "for address patterns), with random point-in-time / expand / $and-$or wrapping; distinct = distinct (row, string); non-trivial = the "
                       "string contains one of ' \" \\ ; $ ? NUL -- /*; + hostile keys (family hostile-key: per key row ~360 compositions of an SQL fragment with a key-like base) "
                       "+ hostile values through keys discovered at generation time (family discovered-key; none on the unchanged code)") % (len(rows), n_fixed, n)
    ctx.cov["outcomes"] = stats
    ctx.cov["rows"] = len(rows)
    ctx.cov["rows_without_nontrivial_string"] = sum(1 for r in rows.values() if r["nontrivial"] == 0)
    ctx.cov["statements_captured_distinct"] = len(sqls)
    by_ep = {}
    for (api, ep, key, op, pos, vt), r in rows.items():
        e = by_ep.setdefault("%s %s" % (api, ep), {"rows": 0, "cases_sql": 0, "cases_rejected": 0})
        e["rows"] += 1
        e["cases_sql"] += r["sql"]
        e["cases_rejected"] += r["rejected"]
    ctx.cov["input_distribution"] = by_ep
    samples = []
    for inp in inputs:
        if inp["hostile"] in ("zq7' or '1'='1", "zq7\\' or 1=1 --", "users:zq7' or 1=1 --:") and inp["pos"] == "value" and len(samples) < 6 and inp["op"] in ("$match", ""):
            o = impl.get(inp["id"])
            samples.append({"input": {k: v for k, v in inp.items() if k != "id"}, "status": o["h"].get("status"),
                            "sql": (o["h"].get("sql") or [None])[-1], "model": model.get(inp["id"], {}).get("h")})
    ctx.cov["samples"] = samples or [{"input": inputs[0], "impl": impl.get(inputs[0]["id"])}]
    ctx.notes.append("observed, outside C20's quantifier: bunpaginate.UsingColumn writes the `column` field of a client-supplied cursor into ORDER BY / WHERE "
                     "with fmt.Sprintf (pagination state, not a list filter; see out_of_quantifier_observations); v1 GET /accounts drops the error of buildAccountsFilterQuery, so an invalid "
                     "balance / the default balanceOperator \"eq\" silently yields an unfiltered listing; logsQueryBuilder panics on an unknown key (500)")
