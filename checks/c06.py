"""C06 — acknowledged means persisted; rejected means no trace."""
from checks.enginelib import *

META = {
    "text": 'Lean: component model Ack; theorems ack_implies_durable, every_entry_has_producer, error_leaves_nothing, one_entry_per_request over all accepted event sequences incl. crashes and store failures. Tie: trace validation (a request is woken only when its log is durable; success only with an entry); oracle: responses vs the durable log at response time.',
    "note": "PARTIAL: pond/job.Runner internals and Go panic propagation are abstracted to 'a failing InsertLogs is followed by process death without a wake-up' (observed on the real runner). Trusted: Lean kernel; event extraction.",
    "technique": 'Lean 4 proof (inductive invariant of the Ack component) + trace validation with failure injection + response/log oracle',
    "design_ref": '5 (C06)',
}


def run(ctx):
    run_check(ctx, 'C06', ["ack"], lambda scn, run: concurrent(scn, run) or restarted(run) or any(isinstance(t, dict) and t.get("a") == -1 and t.get("ok") is False for t in run["trace"]), 'a response and a persistence event were concurrent, or the process died, or the store failed')
