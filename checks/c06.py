"""C06 — acknowledged means persisted; rejected means no trace."""
from checks.enginelib import *
from checks import batchlib

META = {
    "text": 'Lean: component model Ack (every entry written or queued during the run is tagged with the request that committed it); inductive invariant Ack.Inv (step_inv, for every choice of previews); theorems over all accepted event sequences incl. crashes and store failures: ack_implies_durable + ack_only_when_durable (a success stands for an entry persisted at that moment, carrying the answered transaction id), ack_stays_durable (the store only grows), every_entry_has_producer (store = initial log ++ entries each committed by a real request), error_leaves_nothing (now or later), one_entry_per_request, answer_is_the_entry, crash_before_persist_leaves_nothing (lost logs: no entry, producers never acknowledged, wake-up and success rejected), store_failure_never_acks, wake_only_when_durable. Tie: trace validation (a request is woken only when its own log is persisted; success only with a persisted entry with that id; no commit by an answered request); oracle: responses vs the durable log at response time.',
    "note": "PARTIAL: pond/job.Runner internals and Go panic propagation are abstracted to 'a failing InsertLogs is followed by process death without a wake-up' (observed on the real runner). Trusted: Lean kernel; event extraction.",
    "technique": 'Lean 4 proof (inductive invariant of the Ack component) + trace validation with failure injection + response/log oracle',
    "design_ref": '5 (C06)',
}


def run(ctx):
    area = batchlib.replay_area(ctx)
    if area == batchlib.AREA:       # a replay of the component stage: the operation sequence alone
        ctx.l1()
        batchlib.run_batcher(ctx, 'C06')
        return
    run_check(ctx, 'C06', ["ack"], lambda scn, run: concurrent(scn, run) or restarted(run) or any(isinstance(t, dict) and t.get("a") == -1 and t.get("ok") is False for t in run["trace"]), 'a response and a persistence event were concurrent, or the process died, or the store failed')
    if area is not None:
        return
    # stage 2: batching.Batcher + job.Runner as components of their own (batch boundaries, a stop with work queued, a failing runner call)
    batchlib.run_batcher(ctx, 'C06')
