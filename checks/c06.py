"""C06 — acknowledged means persisted; rejected means no trace."""
from checks.enginelib import *
from checks import batchlib

META = {
    "text": 'Lean: component model Ack (every entry written or queued during the run is tagged with the request that committed it); inductive invariant Ack.Inv (step_inv, for every choice of previews); theorems over all accepted event sequences incl. crashes and store failures: ack_implies_durable + ack_only_when_durable (a success stands for an entry persisted at that moment, carrying the answered transaction id), ack_stays_durable (the store only grows), every_entry_has_producer (store = initial log ++ entries each committed by a real request), error_leaves_nothing (now or later), one_entry_per_request, answer_is_the_entry, crash_before_persist_leaves_nothing (lost logs: no entry, producers never acknowledged, wake-up and success rejected), store_failure_never_acks, wake_only_when_durable. Tie: trace validation (a request is woken only when its own log is persisted; success only with a persisted entry with that id; no commit by an answered request); oracle: responses vs the durable log at response time. Stage 2, the component between commit and the store (batching.Batcher + job.Runner, one worker): Lean model Batcher (Model/Batcher.lean), theorems for every operation sequence, every maxBatchSize, unbounded queues: ack_only_after_persisted (the callbacks that ran are a prefix of the objects of the runner calls that returned nil, each in a batch that was handed out), failure_acks_nothing_and_stops + failed_batch_never_acked (from a failing call on, whatever follows: no callback, no further batch, the loop is not running), stop_acks_nothing_unpersisted + close_runs_no_callback (Close runs no callback and none runs afterwards). Tie: area batcher — seeded operation sequences on the real Batcher[int] + job.Runner (a failing runner call, also three in a row; a Close with work queued) compared step by step with the model (stream batcher:model-vs-real); oracle on the record of the implementation alone: ack-without-persistence (when = failure | stop | running), ack-twice, ack-order.',
    "note": "PARTIAL: pond/job.Runner internals and Go panic propagation are abstracted to 'a failing InsertLogs is followed by process death without a wake-up' (observed on the real runner) in the Ack machine; job.Runner (one worker) and Batcher are modelled and tied as a component of their own (stage 2), pond and the Go runtime stay abstract; interleavings inside one harness operation are not explored. Trusted: Lean kernel; event extraction; the batcher harness (gate in the runner function, quiescence from the events an operation must cause, overlay exports VerifPendingLen / VerifUnpark).",
    "technique": 'Lean 4 proof (inductive invariant of the Ack component) + trace validation with failure injection + response/log oracle; Lean 4 proof (inductive invariant of the Batcher / job.Runner component) + operation-sequence differential on the real component + callback oracle + regenerated commander skeleton (extract/commander -> Generated/Commander.lean on every run): well-formedness of every control path by decide, refinement of this component by the interpreted skeleton under every schedule, observed runs re-executed in the skeleton system',
    "design_ref": '5 (C06), 0a (The batcher and the job runner)',
}


def run(ctx):
    area = batchlib.replay_area(ctx)
    if area == batchlib.AREA:       # a replay of the component stage: the operation sequence alone
        ctx.l1()
        batchlib.run_batcher(ctx, 'C06')
        return
    run_check(ctx, 'C06', ["ack"], lambda scn, run: concurrent(scn, run) or restarted(run) or any(isinstance(t, dict) and t.get("a") == -1 and t.get("ok") is False for t in run["trace"]), 'a response and a persistence event were concurrent, or the process died, or the store failed')
    if area is not None:
        return
    # stage 2: batching.Batcher + job.Runner as components of their own (batch boundaries, a stop with work queued, a failing runner call)
    batchlib.run_batcher(ctx, 'C06')
