"""C15 — account locks are exclusive and are always eventually granted."""
import collections
from vlib.common import *

META = {
    "text": "Lean theorems about Model.Lock (a labelled transition system mirroring DefaultLocker: tryLock / unlock / recheck over the two lock tables, "
            "the FIFO of intents, cancellation, and the window between 'granted by recheck' and 'observed by the waiting goroutine' with the select's choice "
            "as a nondeterministic label), for every reachable state: exclusion, no_missed_wakeup, drain (measure argument, any release order), cancel_clean "
            "(both sides of the grant/cancel coincidence), tables_exact, holders_are_granted.  The model is tied to the real command.NewDefaultLocker() by an "
            "operation-sequence differential (trace inclusion: what the real locker did must be one of the model's resolutions), and an independent oracle "
            "evaluates the property on the observed returns and releases alone.  Coincidences of grant and cancellation are forced at both places where "
            "they can happen: at the select (a context whose Done() parks the request there while its blockers release and it is cancelled), and at the "
            "locker's mutex ('handover': the harness holds the mutex until a release and the cancellation path of a waiter are both parked on it, in either "
            "order; with the release first the waiter runs its cancellation path having been granted after it left the select — one model resolution only). "
            "The arrival path is opened the same way: 'arrive-during-release' parks a newcomer inside Lock, in one of the log calls Lock makes through the "
            "request's own logger (between the failed direct check and the place in the queue), starts the release of a holder, observes whether it has to "
            "wait on the mutex or runs in between, and requires what the model's single order arrive-then-release gives: the newcomer is granted.",
    "note": "Trusted: Lean kernel (axioms propext/Classical.choice/Quot.sound at most); the reading of lock.go as atomic sections delimited by the mutex; "
            "the Go runtime's select/channel/mutex semantics (the model takes the select's choice among ready cases as nondeterministic; sync.Mutex "
            "serves goroutines parked on it first in, first out when nobody else asks for it); the harness. "
            "Not modelled: unlock functions called twice, and — on the code as found only — the unsynchronised RemoveValue racing with recheck "
            "(-race output is reported as supporting evidence in the thorough tier).",
    "technique": "Lean 4 proof by induction over operation sequences (inductive invariant) + differential correspondence with DefaultLocker",
    "design_ref": "5 (C15), 3.5, 6 #15, appendix B (C15's drain), appendix C #15",
}

REPEAT_CORPUS = 16      # every corpus line is run this many times: the select's choice is Go's own coin
REPEAT_REPLAY = 64
STEP_KEYS = ("res", "ret", "sub", "waiting", "q", "rl", "wl")


def conflicts(x, y):
    """x, y = (read, write): one writes an account the other reads or writes"""
    return any(a in y[0] or a in y[1] for a in x[1]) or any(a in x[0] or a in x[1] for a in y[1])


def oracle(inp, out):
    """The property itself on what the real locker did — only the operations issued and the observed returns are used
    (plus, for 'leaves nothing behind', the final lock tables).  Returns [(signature, description)]."""
    if "panic" in out:
        return [({"class": "panic"}, "the lock manager panicked: %s" % out["panic"])]
    v = []
    reqs, holders, waiting, aborted, cancelled, aborted_at, first_leak = {}, set(), set(), {}, set(), {}, {}

    def returns(ret, k, kind):
        for sid, how in sorted(ret.items(), key=lambda kv: int(kv[0])):
            i = int(sid)
            if i not in waiting:
                v.append(({"class": "spurious-return"}, "step %d: request %d returned %s without a pending Lock call" % (k, i, how)))
                continue
            waiting.discard(i)
            if how == "ok":
                holders.add(i)
            elif how == "err":
                aborted[i] = kind
                aborted_at[i] = k
                if i not in cancelled:
                    v.append(({"class": "error-without-cancellation"}, "step %d: request %d got an error although its context was not cancelled" % (k, i)))
            else:
                v.append(({"class": "bad-return", "how": how}, "step %d: request %d returned %s" % (k, i, how)))

    def blame(cands, tables=None):
        """which abandoned request to name (the violation is reported whatever is named here): one that was abandoned in the very step
        after which the observed tables first held one of its accounts beyond what the holders account for, if there is one; one whose
        accounts are all still in the observed tables; then one whose cancellation coincided with a grant, then the most recent"""
        at = [a for a in cands if any(first_leak.get(x) == aborted_at[a] for x in reqs[a][0] + reqs[a][1])]
        cands = at or cands
        if tables is not None:
            still = [a for a in cands if set(reqs[a][0]) <= set(tables[0]) and set(reqs[a][1]) <= set(tables[1]) and (reqs[a][0] or reqs[a][1])]
            cands = still or cands
        prio = {"select-entry": 0, "release-in-progress": 0, "concurrent-release": 1}
        return sorted(cands, key=lambda a: (prio.get(aborted[a], 2), -aborted_at[a], a))

    def check(k, kind, tables=None):
        hs = sorted(holders)
        for n, a in enumerate(hs):
            for b in hs[n + 1:]:
                if conflicts(reqs[a], reqs[b]):
                    v.append(({"class": "exclusion"}, "step %d: requests %d %s and %d %s hold conflicting accounts at the same time" % (k, a, reqs[a], b, reqs[b])))
        for w in sorted(waiting):
            if w in cancelled:
                continue
            if all(not conflicts(reqs[w], reqs[h]) for h in hs):
                culprit = blame([a for a in sorted(aborted) if conflicts(reqs[w], reqs[a])], tables)
                if tables is not None and not (any(a in tables[1] for a in reqs[w][0]) or any(a in tables[1] or a in tables[0] for a in reqs[w][1])):
                    culprit = []   # the observed tables hold nothing the request wants: nobody left anything behind, it was simply not woken
                if culprit:
                    v.append(({"class": "cancel-leak", "moment": aborted[culprit[0]]},
                              "step %d: request %d %s still waits although it conflicts with no holder (holders %s); request %d %s, abandoned through "
                              "cancellation (%s), left its accounts locked" % (k, w, reqs[w], hs, culprit[0], reqs[culprit[0]], aborted[culprit[0]])))
                else:
                    v.append(({"class": "missed-wakeup"}, "step %d: request %d %s still waits although it conflicts with no holder (holders %s)" % (k, w, reqs[w], hs)))

    steps = out.get("steps", [])
    for k, (op, st) in enumerate(zip(inp["ops"], steps)):
        kind = op["op"]
        if kind in ("arrive", "arrive-during-release"):
            if st["res"] != "rejected":
                i = op["r"]
                reqs[i] = (op.get("read", []), op.get("write", []))
                waiting.add(i)
                # arrive-during-release: the release of b was issued while the request was inside Lock; whatever order the locker
                # gave the two, b has released by the end of the step
                holds = op.get("hold", []) if kind == "arrive" else [{"op": "release", "r": op["b"]}]
                hk = {h["op"] for h in holds}
                if "cancel" in hk:   # the context is cancelled while the request stands at the entry of its select
                    kind = "select-entry" if "release" in hk else "cancel"
                # a request granted at once is a holder before the held operations run
                if st["res"] == "acquired" and st["ret"].get(str(i)) == "ok":
                    returns({str(i): "ok"}, k, kind)
                for h in holds:
                    if h["op"] == "release":
                        holders.discard(h["r"])
                    else:
                        cancelled.add(i)
                returns({a: b for a, b in st["ret"].items() if not (st["res"] == "acquired" and a == str(i))}, k, kind)
        elif kind == "release":
            if (st["res"] == "released") != (op["r"] in holders):
                v.append(({"class": "harness-bookkeeping"}, "step %d: release of %d answered %s" % (k, op["r"], st["res"])))
            holders.discard(op["r"])
            returns(st["ret"], k, kind)
        elif kind == "cancel":
            cancelled.add(op["r"])
            returns(st["ret"], k, kind)
        elif kind == "race":
            cancelled.add(op["r"])
            holders.discard(op["b"])
            returns(st["ret"], k, "concurrent-release")
        elif kind == "handover":
            cancelled.add(op["r"])
            holders.discard(op["b"])
            # first=release: the request runs its cancellation path after a release that was already on its way got the mutex
            returns(st["ret"], k, "release-in-progress" if op.get("first") != "cancel" and st["res"] == "handover" else "cancel")
        elif kind == "drain":
            for sub in st.get("sub", []):
                holders.discard(sub["rel"])
                returns(sub["ret"], k, kind)
                check(k, kind)
            if holders and "dead" not in out:
                v.append(({"class": "harness-bookkeeping"}, "step %d: drain left holders %s" % (k, sorted(holders))))
        # accounts the observed tables hold beyond what the current holders account for: remember the step they first showed
        for a in set(st.get("rl", {})) | set(st.get("wl", [])):
            nread = sum(reqs[h][0].count(a) for h in holders)
            if (a in st.get("wl", []) and not any(a in reqs[h][1] for h in holders)) or int(st.get("rl", {}).get(a, 0)) > nread:
                first_leak.setdefault(a, k)
        check(k, kind, (st.get("rl", {}), st.get("wl", [])))
    if "dead" in out:
        v.append(({"class": "stuck"}, "after %d steps: %s" % (len(steps), out["dead"])))
    elif steps and inp["ops"] and inp["ops"][-1]["op"] == "drain" and len(steps) == len(inp["ops"]):
        last = steps[-1]
        if last["rl"] or last["wl"]:
            left = set(last["rl"]) | set(last["wl"])
            culprit = blame([a for a in aborted if left & (set(reqs[a][0]) | set(reqs[a][1]))], (last["rl"], last["wl"]))
            v.append(({"class": "residue", "moment": aborted[culprit[0]] if culprit else "none"},
                      "every holder has released, yet the tables still hold read=%s write=%s (abandoned requests: %s)" % (last["rl"], last["wl"], culprit)))
    # one entry per signature
    seen, res = set(), []
    for sig, what in v:
        if canon(sig) not in seen:
            seen.add(canon(sig))
            res.append((sig, what))
    return res


def bump(d, k):
    d[k] = d.get(k, 0) + 1


def strip(steps):
    return [{k: s.get(k) for k in STEP_KEYS} for s in steps]


def match(out, model):
    """index of the model path (one resolution of the nondeterminism) that is exactly what the implementation did"""
    if "steps" not in out or "dead" in out or "paths" not in model:
        return None
    mine = canon(strip(out["steps"]))
    for n, p in enumerate(model["paths"]):
        if canon(strip(p["steps"])) == mine:
            return n
    return None


def run_lock(ctx, inputs, tag, binary=None, env=None, timeout=3000):
    inp, implf, modelf = ctx.path("lock.%s.in.jsonl" % tag), ctx.path("lock.%s.impl.jsonl" % tag), ctx.path("lock.%s.model.jsonl" % tag)
    write_jsonl(inp, inputs)
    p = run_harness(["lock", "exec", "-in", inp, "-out", implf], timeout=timeout, binary=binary, env=env)
    if p.returncode != 0:
        ctx.l2_broken.append({"stream": "lock-exec", "detail": (p.stdout + p.stderr)[-2000:]})
        return None
    impl = {r["id"]: r["out"] for r in read_jsonl(implf)}
    if binary is not None:
        return impl, None, p.stderr
    q = run_driver("lock", inp, modelf, timeout=timeout)
    if q.returncode != 0:
        ctx.l2_broken.append({"stream": "lock-driver", "detail": (q.stdout + q.stderr)[-2000:]})
        return None
    model = {r["id"]: r["out"] for r in read_jsonl(modelf)}
    return impl, model, p.stderr


def still_fails(ctx, ops, sig, repeats=24):
    inputs = [{"id": i, "ops": ops} for i in range(repeats)]
    r = run_lock(ctx, inputs, "shrink")
    if r is None:
        return None
    impl = r[0]
    for i in inputs:
        for s, _ in oracle(i, impl.get(i["id"], {})):
            if canon(s) == canon(sig):
                return impl[i["id"]]
    return None


def shrink(ctx, inp, sig):
    """greedy: drop one operation (or one held operation) at a time while the same signature still shows"""
    ops = [dict(o) for o in inp["ops"]]
    observed = None
    changed = True
    while changed:
        changed = False
        k = 0
        while k < len(ops):
            cands = [ops[:k] + ops[k + 1:]]
            if ops[k].get("hold"):
                for h in range(len(ops[k]["hold"])):
                    o = dict(ops[k], hold=ops[k]["hold"][:h] + ops[k]["hold"][h + 1:])
                    if not o["hold"]:
                        del o["hold"]
                    cands.append(ops[:k] + [o] + ops[k + 1:])
            if ops[k]["op"] in ("arrive", "arrive-during-release"):
                for f in ("read", "write"):
                    for a in range(len(ops[k].get(f, []))):
                        cands.append(ops[:k] + [dict(ops[k], **{f: ops[k][f][:a] + ops[k][f][a + 1:]})] + ops[k + 1:])
            for c in cands:
                if not c:
                    continue
                got = still_fails(ctx, c, sig)
                if got is not None:
                    ops, observed, changed = c, got, True
                    break
            else:
                k += 1
    return ops, observed


def run(ctx):
    ctx.cov["trusted_base"] = [
        "Lean 4.33 kernel; axioms allowed: propext, Classical.choice, Quot.sound",
        "Model.Lock reads lock.go as atomic sections delimited by DefaultLocker.mu (tryLock / unlock+recheck / the repaired cancellation path) and "
        "takes Go's choice among ready select cases as a nondeterministic label; tied to the real DefaultLocker by the differential only",
        "Go runtime semantics of mutex, channel close and select; the harness (contexts whose Done() is the yield point before the select; "
        "a logger per request whose calls are a second yield point, inside Lock; "
        "overlay export VerifView/VerifQueueLen reading the unexported tables under the mutex, VerifMu handing out the mutex itself; "
        "'parked on the mutex' read from runtime.Stack: wait reason sync.Mutex.Lock with a frame of DefaultLocker)",
    ]
    ctx.l1()
    if not (ctx.ensure_driver() and ctx.ensure_harness()):
        return
    n = 500 if ctx.quick else 50000
    if ctx.replay_file:
        rp = json.load(open(ctx.replay_file))["replay"]
        base = rp["inputs"] if "inputs" in rp else [rp["input"]]
        inputs = [dict(b, id=k * REPEAT_REPLAY + j) for k, b in enumerate(base) for j in range(REPEAT_REPLAY)]
        ncorpus = 0
    else:
        gen = ctx.path("lock.gen.jsonl")
        p = run_harness(["lock", "gen", "-seed", ctx.seed, "-n", n, "-tier", ctx.tier, "-out", gen])
        if p.returncode != 0:
            ctx.l2_broken.append({"stream": "lock-gen", "detail": (p.stdout + p.stderr)[-2000:]})
            return
        corpus = []
        for c in corpus_inputs("lock"):
            for j in range(REPEAT_CORPUS):
                corpus.append(dict(c, id=c["id"] * REPEAT_CORPUS - j))
        ncorpus = len(corpus)
        inputs = corpus + read_jsonl(gen)
    r = run_lock(ctx, inputs, "main")
    if r is None:
        return
    impl, model, _ = r

    # ---- L2: trace inclusion
    matched, mism, choice_hist = 0, 0, {}
    stats = {"select_both_ready": 0, "select_took_grant": 0, "select_took_ctx": 0, "race": 0, "race_request_got_lock": 0, "race_request_got_error": 0,
             "handover": 0, "handover_release_first_request_was_granted": 0, "handover_release_first_request_still_queued": 0,
             "handover_cancel_first": 0, "handover_order_forced": 0, "sequences_with_granted_handover": 0, "paths_per_sequence_max": 0,
             "arrive_during_release": 0, "arrive_during_release_by_outcome": {}, "arrive_during_release_at_log_call": {},
             "arrive_during_release_newcomer_waited_behind_the_releaser": 0, "arrive_during_release_newcomer_granted_by_that_release": 0,
             "sequences_with_arrive_during_release": 0}
    for inp in inputs:
        out, mod = impl.get(inp["id"]), model.get(inp["id"])
        m = match(out, mod) if out is not None and mod is not None else None
        if m is None:
            mism += 1
            if mism <= 5:
                ctx.l2_broken.append({"stream": "lock:trace-inclusion", "id": inp["id"], "input": inp, "impl": out,
                                      "model": {"paths": [{"choices": p["choices"], "steps": strip(p["steps"])} for p in (mod or {}).get("paths", [])][:4]}})
            continue
        matched += 1
        path = mod["paths"][m]
        stats["paths_per_sequence_max"] = max(stats["paths_per_sequence_max"], len(mod["paths"]))
        key = "|".join(path["choices"]) or "-"
        if len(key) <= 12:
            choice_hist[key] = choice_hist.get(key, 0) + 1
        hg = False
        adr = False
        for op, st, real in zip(inp["ops"], path["steps"], out["steps"]):
            if op["op"] == "arrive-during-release" and real.get("res") != "rejected":
                adr = True
                stats["arrive_during_release"] += 1
                bump(stats["arrive_during_release_by_outcome"], real.get("ho", "?"))
                if real.get("log"):
                    bump(stats["arrive_during_release_at_log_call"], real["log"])
                if real.get("res") == "queued" and real.get("ho") in ("release-parked", "release-completed"):
                    stats["arrive_during_release_newcomer_waited_behind_the_releaser"] += 1
                    stats["arrive_during_release_newcomer_granted_by_that_release"] += real.get("ret", {}).get(str(op["r"])) == "ok"
            if st["nd"].startswith("handover"):
                stats["handover"] += 1
                stats[{"handover-granted": "handover_release_first_request_was_granted", "handover-queued": "handover_release_first_request_still_queued",
                       "handover-cancel-first": "handover_cancel_first"}[st["nd"]]] += 1
                stats["handover_order_forced"] += real.get("ho") == "both-parked"
                hg = hg or st["nd"] == "handover-granted"
        stats["sequences_with_granted_handover"] += hg
        stats["sequences_with_arrive_during_release"] += adr
        for op, st in zip(inp["ops"], path["steps"]):
            if st["nd"] == "select":
                stats["select_both_ready"] += 1
                stats["select_took_grant" if st["ret"].get(str(op["r"])) == "ok" else "select_took_ctx"] += 1
            elif st["nd"] == "race":
                stats["race"] += 1
                stats["race_request_got_lock" if st["ret"].get(str(op["r"])) == "ok" else "race_request_got_error"] += 1
    ctx.cov.setdefault("disagreements", {})["lock:trace-inclusion"] = mism
    ctx.cov.setdefault("compared", {})["lock:trace-inclusion"] = len(inputs)
    ctx.cov["traces_validated_against_impl"] = matched

    # ---- L3: the property on the implementation's outputs
    seen, nontrivial, shrunk = set(), 0, {}
    dist = {"ops": {}, "requests": 0, "account_in_both_sets": 0, "duplicate_in_a_set": 0, "empty_request": 0, "arrivals_queued": 0,
            "queued_then_granted": 0, "queued_then_cancelled": 0, "sequences": len(inputs), "corpus_runs": ncorpus}
    for inp in inputs:
        out = impl.get(inp["id"])
        if out is None:
            continue
        for sig, what in oracle(inp, out):
            sig = dict(sig, property="C15")
            replay = {"area": "lock", "input": {k: v for k, v in inp.items() if k not in ("id", "corpus")}, "observed": out,
                      "note": "the select's choice is Go's own: --replay runs the input %d times" % REPEAT_REPLAY}
            if not ctx.replay_file and shrunk.get(canon(sig), 0) < 2:
                shrunk[canon(sig)] = shrunk.get(canon(sig), 0) + 1
                ops, obs = shrink(ctx, inp, {k: v for k, v in sig.items() if k != "property"})
                if obs is not None:
                    replay = dict(replay, input={"ops": ops}, observed=obs)
                    what = next((w for g, w in oracle({"ops": ops}, obs) if canon(dict(g, property="C15")) == canon(sig)), what)
            ctx.violation(sig, what, replay)
        # counters
        queued, granted_later, cancelled_later = set(), False, False
        for op, st in zip(inp["ops"], out.get("steps", [])):
            opk = op["op"] + ("+hold" if op.get("hold") else "") + ("(%s first)" % op.get("first", "release") if op["op"] == "handover" else "") + \
                  ("(at log call %s)" % op.get("at", 2) if op["op"] == "arrive-during-release" else "")
            dist["ops"][opk] = dist["ops"].get(opk, 0) + 1
            if op["op"] in ("arrive", "arrive-during-release"):
                dist["requests"] += 1
                rd, wr = op.get("read", []), op.get("write", [])
                dist["account_in_both_sets"] += any(a in wr for a in rd)
                dist["duplicate_in_a_set"] += len(set(rd)) < len(rd) or len(set(wr)) < len(wr)
                dist["empty_request"] += not rd and not wr
                if st["res"] == "queued":
                    queued.add(str(op["r"]))
                    dist["arrivals_queued"] += 1
            for i, how in st["ret"].items():
                if i in queued:
                    queued.discard(i)
                    if how == "ok":
                        granted_later = True
                        dist["queued_then_granted"] += 1
                    else:
                        cancelled_later = True
                        dist["queued_then_cancelled"] += 1
        h = shash(inp["ops"])
        if h not in seen and (granted_later or cancelled_later):
            nontrivial += 1
        seen.add(h)
    ctx.cov["evaluations"] = len(inputs)
    ctx.cov["distinct_nontrivial"] = nontrivial
    ctx.cov["distinct_sequences"] = len(seen)
    ctx.cov["rule"] = ("seeded operation sequences against the real DefaultLocker (<= %d operations, <= 6 accounts, <= 8 requests; arrive / release / cancel in "
                       "every order, arbitrary read and write sets incl. an account in both, duplicates, empty sets, contexts cancelled before the call, releases "
                       "by non-holders; a request kept at the entry of its select while its blockers release and its context is cancelled; cancel and release "
                       "issued concurrently; cancel and release made to queue on the locker's mutex in either order before either runs; a release started while a newcomer stands "
                       "in a log call of Lock, i.e. between its failed check and its place in the queue), each ended by 'every holder releases until none is left'; corpus lines run %d times each; "
                       "non-trivial = distinct sequence in which a request was queued and later granted or cancelled"
                       % (12 if ctx.quick else 40, REPEAT_CORPUS))
    ctx.cov["samples"] = [{"input": i, "impl": impl.get(i["id"])} for i in inputs[ncorpus:ncorpus + 2]] + \
                         [{"input": i, "impl": impl.get(i["id"])} for i in inputs[:1] if ncorpus]
    ctx.cov["input_distribution"] = dist
    ctx.cov["coincidences"] = dict(stats, matched_choice_strings=dict(sorted(choice_hist.items(), key=lambda kv: -kv[1])[:12]),
                                   note="select_*: the request stood at the entry of its select with both acquired and ctx.Done() ready (set up "
                                        "deterministically through the context's Done() method); which case Go took is counted, both are legal model transitions. "
                                        "race_*: cancel and release issued from two goroutines while the request was parked. "
                                        "handover_*: cancel and release issued while the harness holds the locker's mutex, released only when both are parked "
                                        "on it in the wanted order (handover_order_forced = both were seen parked); release first: the request runs its "
                                        "cancellation path after the release — was_granted = that release had granted it, so it had to give the accounts back. "
                                        "arrive_during_release_*: the release of a holder started while a newcomer stood in one of the log calls Lock makes "
                                        "through the request's logger; by_outcome: release-parked = the release had to wait on the locker's mutex (the call is "
                                        "made under it), release-completed = it ran in between (the call is made outside the mutex), no-such-yield = the "
                                        "newcomer made fewer log calls; at_log_call = the text of the call it stood in; waited_behind_the_releaser = the "
                                        "newcomer's direct check had failed when the release was started, granted_by_that_release = it then got the lock in "
                                        "the same step.")
    ctx.assumptions += [
        "an unlock function is called at most once, and only by the caller that received it",
        "mutex-delimited sections of lock.go are atomic; the select's choice among ready cases is arbitrary",
    ]

    # ---- supporting evidence only: the same sequences under the race detector (thorough tier)
    if not ctx.quick and not ctx.replay_file:
        rb = ctx.ensure_harness(race=True)
        if rb:
            sub = inputs[: ncorpus + 3000]
            rr = run_lock(ctx, sub, "race", binary=rb, env={"GORACE": "halt_on_error=0 exitcode=0"})
            if rr is not None:
                races = rr[2].count("WARNING: DATA RACE")
                ctx.cov["race_detector"] = {"sequences": len(sub), "data_race_reports": races,
                                            "note": "supporting evidence only, not part of the verdict; "
                                                    "the unrepaired code reports RemoveValue (no locker mutex) against recheck"}
                if races:
                    ctx.notes.append("race detector reported %d data races: %s" % (races, rr[2][:1500]))


def contract_for(ctx, prop, n):
    """The locker contract as another property's assumption (C02: the engine runs use a scheduler-native locker that implements this
    contract; here the REAL DefaultLocker is held to it): generated op sequences (or the replay's) through the real locker, the oracle of
    this file on what it did, reported under `prop`.  Returns the number of sequences evaluated."""
    if not (ctx.ensure_driver() and ctx.ensure_harness()):
        return 0
    if ctx.replay_file:
        rp = json.load(open(ctx.replay_file))["replay"]
        base = rp["inputs"] if "inputs" in rp else [rp["input"]]
        inputs = [dict(b, id=k * REPEAT_REPLAY + j) for k, b in enumerate(base) for j in range(REPEAT_REPLAY)]
    else:
        gen = ctx.path("lock.gen.jsonl")
        p = run_harness(["lock", "gen", "-seed", ctx.seed, "-n", n, "-tier", ctx.tier, "-out", gen])
        if p.returncode != 0:
            ctx.l2_broken.append({"stream": "lock-gen", "detail": (p.stdout + p.stderr)[-2000:]})
            return 0
        inputs = []
        for c in corpus_inputs("lock"):
            for j in range(REPEAT_CORPUS):
                inputs.append(dict(c, id=c["id"] * REPEAT_CORPUS - j))
        inputs += read_jsonl(gen)
    r = run_lock(ctx, inputs, "contract")
    if r is None:
        return 0
    impl, _, _ = r
    classes = collections.Counter()
    forced = collections.Counter()
    for inp in inputs:
        out = impl.get(inp["id"])
        if out is None:
            continue
        for op, st in zip(inp["ops"], out.get("steps", [])):
            if op["op"] == "handover" and st.get("res") == "handover":
                forced["handover(%s first)" % op.get("first", "release")] += 1
                forced["handover_order_forced"] += st.get("ho") == "both-parked"
            if op["op"] == "arrive-during-release" and st.get("res") != "rejected":
                forced["arrive-during-release(%s)" % st.get("ho", "?")] += 1
        for sig, what in oracle(inp, out):
            classes[sig.get("class")] += 1
            ctx.violation(dict(sig, property=prop, component="DefaultLocker"), "the account locker breaks its contract: " + what,
                          {"area": "lock", "input": {k: v for k, v in inp.items() if k not in ("id", "corpus")}, "observed": out,
                           "note": "the select's choice is Go's own: --replay runs the input %d times" % REPEAT_REPLAY})
    ctx.cov["locker_contract"] = {"sequences": len(inputs), "violations_by_class": dict(classes), "coincidences_at_the_mutex": dict(forced),
                                  "rule": "op sequences (arrive / release / cancel, coincidences of grant and cancellation forced: at the select, and at the locker's "
                                          "mutex — a release and a cancellation path queued on it in either order; a release started while a newcomer is between "
                                          "its failed check and its place in the queue) through the real "
                                          "command.DefaultLocker; exclusion, no missed wake-up, cancellation leaves nothing behind"}
    return len(inputs)
