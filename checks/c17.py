"""C17 — following cursors enumerates each item exactly once."""
from vlib.common import *

META = {
    "text": "Lean theorems (listing_exactly_once, walk_next_complete, previous_is_previous, previous_walk_complete, resume_after_previous_complete (after next ... previous, "
            "following next until hasMore is false delivers the rest of the list from the page one is on), has_more_iff_next (every page, however reached, says hasMore exactly "
            "when a next token comes with it), offset_walk_complete, filter_roundtrip, cursor_roundtrip, cursor_roundtrip_offset, cursor_accepted_back) about "
            "Model.Paginate.pageCol/pageOff (UsingColumn/UsingOffset evaluated on an abstract table by a where/order/limit evaluator) and "
            "Model.Cursor.encode*/decode* (the JSON value inside a cursor token, filter expression included), for every table with a unique "
            "pagination column, every caller filter, every page size >= 1, both orders and every filter expression; the walks are stated "
            "at token level (each `next`/`previous` goes through encode and decode). The model is tied to the real "
            "bunpaginate.UsingColumn/UsingOffset/Iterate/Extract/EncodeCursor/UnmarshalCursor, query.ParseJSON, "
            "ledgerstore.PaginatedQueryOptions and the v1/v2 list handlers by a seeded differential over bun + an evaluating fake SQL "
            "driver; an independent oracle evaluates the property on the implementation's own outputs at EVERY position of a traversal: the forward pages, "
            "every page reached through `previous` (from each page, and all the way back from the last one), and the walk resumed from each of those with the real Iterate / "
            "over HTTP (it must deliver exactly the rest of the list; hasMore <=> next token <=> the list goes on after the page).",
    "note": "Trusted: Lean kernel (axioms propext/Classical.choice/Quot.sound at most); the harness and its fake SQL driver (evaluates "
            "SELECT * FROM items [WHERE (c op n) AND ...] ORDER BY id dir [LIMIT k] [OFFSET m]); Go's encoding/json, encoding/base64 and "
            "time formatting (a token is modelled down to the JSON value it contains); bun's SQL rendering; the SQL that the real "
            "ledgerstore list queries put around the pagination clauses (needs PostgreSQL) is replaced by a one-column table.",
    "technique": "Lean 4 proof (strong induction on the part of the listing not yet shown; mutual structural recursion on the filter tree) "
                 "+ differential correspondence with the real pagination and cursor code",
    "design_ref": "5 (C17), 6 #18 #19, 8 (pagination probe)",
}

GRID_SIZES = 41


def norm(x):
    """numbers: 1.0 and 1 are the same JSON number"""
    if isinstance(x, float) and x.is_integer():
        return int(x)
    if isinstance(x, list):
        return [norm(v) for v in x]
    if isinstance(x, dict):
        return {k: norm(v) for k, v in x.items()}
    return x


def proj_impl(inp, o):
    if "panic" in o:
        return {"res": "panic"} if inp["kind"] in ("colstep", "offstep") else {"panic": True}
    if inp["kind"] == "token" and o.get("accepted") and o.get("after", {}).get("order") not in ("0", "1"):
        return {"accepted": True, "odd_order": o["after"]["order"]}
    return norm(o)


def proj_model(inp, o):
    return norm(o)


# ------------------------------------------------------------------------------------------------ L3: the property itself

def expected_listing(inp):
    rows = [(int(i), g) for i, g in zip(inp["ids"], inp.get("grps") or [0] * len(inp["ids"]))]
    if inp.get("g") is not None:
        rows = [r for r in rows if r[1] == inp["g"]]
    ids = sorted(r[0] for r in rows)
    return ids


def token_filter(tok):
    """the filter as it sits in a token (None when the token carries none)"""
    if not isinstance(tok, dict):
        return None
    return (tok.get("filters") or {}).get("qb")


def has_more_due(want, data):
    """must a page showing `data` say hasMore?  Exactly when the list goes on after the page's last item (None: cannot tell)."""
    if not data:
        return False if not want else None
    if data[-1] not in want:
        return None
    return want.index(data[-1]) < len(want) - 1


def rest_from(want, data):
    """the rest of the list from the first item of the page on"""
    if not data or data[0] not in want:
        return None
    return want[want.index(data[0]):]


def flags_oracle(v, label, where, want, data, has_more, has_next):
    """clauses every page of a traversal must meet, however it was reached: hasMore <=> a next token came with it, and
    hasMore <=> the list goes on after the page (a client following `next` until hasMore is false stops HERE otherwise)"""
    if has_next != has_more:
        v.append(({"class": "walk", "list": label, "defect": "hasMore-vs-next", "reached": where},
                  "page %s reached through %s: hasMore=%s but a next token is %s" % (data[:6], where, has_more, "present" if has_next else "absent")))
    due = has_more_due(want, data)
    if due is not None and due != has_more:
        v.append(({"class": "walk", "list": label, "defect": "hasMore-wrong", "reached": where},
                  "page %s reached through %s says hasMore=%s, the list %s after it" % (data[:6], where, has_more, "goes on" if due else "ends")))


def resume_oracle(v, label, k, want, page_data, delivered, err):
    """after `previous` from page k the client is on page k-1: following `next` until hasMore is false from THERE must deliver
    exactly the rest of the list (the property quantifies over every position in the traversal)"""
    if err:
        v.append(({"class": "resume", "list": label, "defect": "error"}, "following `next` from the page before page %d failed: %s" % (k, err)))
        return
    rest = rest_from(want, page_data)
    if rest is None:
        return  # the page itself is wrong: reported by the `previous` clauses
    if delivered != rest:
        kind = "duplicate" if len(set(delivered)) != len(delivered) else ("missing" if set(delivered) != set(rest) else "order")
        v.append(({"class": "resume", "list": label, "defect": kind},
                  "next, ..., previous back to page %d %s, then `next` until hasMore=false delivers %s; the rest of the list from there is %s"
                  % (k - 1, page_data[:6], delivered[:12], rest[:12])))


def walk_oracle(inp, out, order, label):
    """out: pages/prevs/backwalk/error of a colwalk/offwalk.  Returns [(sig, what)]."""
    v = []
    carried = "filter" if (inp.get("body") or inp.get("filter")) else "plain"
    if "panic" in out:
        return [({"class": "panic", "list": label}, "pagination panicked: %s" % out["panic"])]
    if out.get("parse") == "error":
        return []  # the endpoint refuses this filter expression: no list, no token
    want = expected_listing(inp)
    if order == "desc":
        want = want[::-1]
    want = [str(i) for i in want]
    err = out.get("error")
    if err:
        if err["what"] == "cursor-refused":
            return [({"class": "cursor-refused", "link": "next", "list": label, "carries": carried},
                     "the `next` token of page %d is refused when sent back (%s cursor)" % (err["at"], carried))]
        return [({"class": "walk-error", "list": label, "what": err["what"].split(":")[0]}, "following `next` failed at page %d: %s" % (err["at"], err["what"]))]
    pages = out["pages"]
    got = [i for p in pages for i in p["data"]]
    if got != want:
        kind = "duplicate" if len(set(got)) != len(got) else ("missing" if set(got) != set(want) else "order")
        v.append(({"class": "walk", "list": label, "defect": kind}, "following `next` yields %s, the list is %s" % (got[:12], want[:12])))
    if pages and pages[-1]["hasMore"]:
        v.append(({"class": "walk", "list": label, "defect": "no-end"}, "the last page still says hasMore"))
    ps = inp["ps"]
    for k, p in enumerate(pages):
        if (p["next"] is not None) != p["hasMore"]:
            v.append(({"class": "walk", "list": label, "defect": "hasMore-vs-next"}, "page %d: hasMore=%s but next=%s" % (k, p["hasMore"], p["next"])))
        if len(p["data"]) > ps or (k < len(pages) - 1 and len(p["data"]) != ps):
            v.append(({"class": "walk", "list": label, "defect": "page-length"}, "page %d has %d items for page size %d" % (k, len(p["data"]), ps)))
        if (p["previous"] is not None) != (k > 0):
            v.append(({"class": "previous", "list": label, "defect": "presence"}, "page %d: previous=%s" % (k, p["previous"])))
    # every token stands for the same query: page size, order, filter, options never change along the way
    first = next((t for p in pages for t in (p["next"], p["previous"]) if t is not None), None)
    for k, p in enumerate(pages):
        for t in (p["next"], p["previous"]):
            if t is None or first is None:
                continue
            same = all(t.get(f) == first.get(f) for f in ("pageSize", "order", "column", "filters"))
            if not same:
                v.append(({"class": "cursor-changed-query", "list": label}, "token of page %d differs from the first token in pageSize/order/column/filters" % k))
    seen_prev = {e["from"]: e for e in out["prevs"]}
    for k in range(1, len(pages)):
        e = seen_prev.get(k)
        if e is None:
            continue  # reported above (presence)
        if e.get("error") == "cursor-refused":
            v.append(({"class": "cursor-refused", "link": "previous", "list": label, "carries": carried}, "the `previous` token of page %d is refused" % k))
            continue
        if "page" not in e:
            v.append(({"class": "previous", "list": label, "defect": "error"}, "previous of page %d: %s" % (k, e.get("error"))))
            continue
        if e["page"]["data"] != pages[k - 1]["data"]:
            v.append(({"class": "previous", "list": label, "defect": "wrong-page"},
                      "previous of page %d shows %s, the page before is %s" % (k, e["page"]["data"], pages[k - 1]["data"])))
        if e["back"] != pages[k]["data"]:
            v.append(({"class": "previous", "list": label, "defect": "no-way-back"},
                      "next of (previous of page %d) shows %s instead of page %d" % (k, e["back"], k)))
        # the page reached through `previous` is a position of the traversal like any other
        flags_oracle(v, label, "previous", want, e["page"]["data"], e["page"]["hasMore"], e["page"]["next"] is not None)
        rs = e.get("resume")
        if rs is None:
            v.append(({"class": "resume", "list": label, "defect": "not-run"}, "the harness did not resume the walk from the page before page %d" % k))
        else:
            for rp in rs["pages"]:
                flags_oracle(v, label, "previous-then-next", want, rp["data"], rp["hasMore"], rp["hasNext"])
            resume_oracle(v, label, k, want, e["page"]["data"], [i for rp in rs["pages"] for i in rp["data"]], rs.get("error"))
    for p in pages:
        flags_oracle(v, label, "next", want, p["data"], p["hasMore"], p["next"] is not None)
    bw = out.get("backwalk", [])
    if [d for d in bw] != [p["data"] for p in pages[:-1]][::-1]:
        v.append(({"class": "previous", "list": label, "defect": "backwalk"}, "following `previous` from the last page yields %s" % bw[:6]))
    bf = out.get("backflags")
    if bf is None or len(bf) != len(bw):
        v.append(({"class": "resume", "list": label, "defect": "not-run"}, "no hasMore/next flags for the pages of the way back"))
    else:
        for d, f in zip(bw, bf):
            if isinstance(d, list):
                flags_oracle(v, label, "previous (way back)", want, d, f["hasMore"], f["hasNext"])
    return v


def cursor_oracle(inp, out):
    if "panic" in out:
        return [({"class": "panic", "list": "cursor"}, "cursor round trip panicked: %s" % out["panic"])]
    if out.get("parse") != "ok":
        return []  # the endpoint refuses the filter expression itself: nothing is handed out
    carried = "filter" if (out["before"]["opts"]["filter"] is not None) else "plain"
    form = "v1" if "v1" in (inp.get("filter") or {}) else "v2"
    if not out["accepted"]:
        return [({"class": "cursor-refused", "link": "roundtrip", "list": inp["qtype"], "carries": carried},
                 "EncodeCursor of a %s query with a %s filter gives a token that Extract/UnmarshalCursor refuses (token content: %s)" % (
                     inp["qtype"], form, canon(out["token"])[:200]))]
    if norm(out["after"]) != norm(out["before"]):
        lost = "filter" if norm(out["after"]["opts"]["filter"]) != norm(out["before"]["opts"]["filter"]) else "other"
        return [({"class": "cursor-changed-query", "list": inp["qtype"], "lost": lost},
                 "the token decodes to a different query: before %s after %s" % (canon(out["before"])[:300], canon(out["after"])[:300]))]
    return []


def http_oracle(inp, out):
    if "panic" in out:
        return [({"class": "panic", "list": inp["endpoint"]}, "handler panicked: %s" % out["panic"])]
    v = []
    ep = inp["endpoint"]
    steps = out["steps"]
    carried = "filter" if inp.get("filter") else "plain"
    if steps and steps[0]["status"] != 200:
        return []  # the first request itself was refused (a filter the endpoint does not accept): no token was handed out
    want = expected_listing(inp)
    order = "desc" if ep in ("v2tx", "v1tx", "v2logs", "v1logs") else "asc"
    want = [str(i) for i in (want[::-1] if order == "desc" else want)]
    for k, s in enumerate(steps[1:], 1):
        if s["status"] != 200:
            return [({"class": "cursor-refused", "link": "next", "list": ep, "carries": carried},
                     "GET ?cursor=<next of page %d> answers %d" % (k - 1, s["status"]))]
    got = [i for s in steps for i in s.get("data", [])]
    if got != want:
        v.append(({"class": "walk", "list": ep, "defect": "content"}, "following `next` over HTTP yields %s, the list is %s" % (got[:12], want[:12])))
    q0 = steps[0].get("query")
    for k, s in enumerate(steps):
        q = s.get("query")
        if q is None or q0 is None:
            continue
        if norm(q["opts"]) != norm(q0["opts"]) or any(q.get(f) != q0.get(f) for f in ("pageSize", "order", "column")):
            lost = "filter" if norm(q["opts"]["filter"]) != norm(q0["opts"]["filter"]) else "other"
            v.append(({"class": "cursor-changed-query", "list": ep, "lost": lost},
                      "the backend query of page %d differs from the first request's (filter/options/page size)" % k))
            break
    for e in out["prevs"]:
        k = e["from"]
        if e["status"] != 200:
            v.append(({"class": "cursor-refused", "link": "previous", "list": ep, "carries": carried}, "GET ?cursor=<previous of page %d> answers %d" % (k, e["status"])))
        elif k >= 1 and e.get("data") != steps[k - 1].get("data"):
            v.append(({"class": "previous", "list": ep, "defect": "wrong-page"}, "previous of page %d shows %s" % (k, e.get("data"))))
        elif q0 is not None and e.get("query") is not None and norm(e["query"]["opts"]) != norm(q0["opts"]):
            v.append(({"class": "cursor-changed-query", "list": ep, "lost": "filter-or-options"}, "previous of page %d stands for another query" % k))
        if e["status"] == 200 and "data" in e:
            if "resume" not in e or "hasMore" not in e:
                v.append(({"class": "resume", "list": ep, "defect": "not-run"}, "the harness did not resume the walk from the page before page %d" % k))
                continue
            flags_oracle(v, ep, "previous", want, e["data"], e["hasMore"], e["hasNext"])
            bad = next((r for r in e["resume"] if r.get("status") != 200 or "data" not in r), None)
            for r in e["resume"]:
                if "data" in r:
                    flags_oracle(v, ep, "previous-then-next", want, r["data"], r["hasMore"], r["hasNext"])
            resume_oracle(v, ep, k, want, e["data"], e["data"] + [i for r in e["resume"] for i in r.get("data", [])],
                          ("GET ?cursor=<next> answers %s" % bad.get("status")) if bad else None)
    for s in steps:
        if "data" in s:
            flags_oracle(v, ep, "next", want, s["data"], s["hasMore"], s["next"] is not None)
    for k in range(1, len(steps)):
        if steps[k].get("previous") is None:
            v.append(({"class": "previous", "list": ep, "defect": "presence"}, "page %d has no previous" % k))
    return v


def oracle(inp, out):
    k = inp["kind"]
    if k == "colwalk":
        return walk_oracle(inp, out, inp["order"], "column")
    if k == "offwalk":
        return walk_oracle(inp, out, inp["order"], "offset")
    if k == "cursor":
        return cursor_oracle(inp, out)
    if k == "http":
        return http_oracle(inp, out)
    return []  # colstep / offstep / token: correspondence only (states and tokens the server never hands out)


def minimise_key(inp):
    return len(canon(inp))


def run(ctx):
    ctx.cov["trusted_base"] = [
        "Lean 4.33 kernel; axioms allowed: propext, Classical.choice, Quot.sound",
        "Model.Paginate (pageCol/pageOff over a where/order/limit evaluator on a list of rows) and Model.Cursor (token = JSON value) are tied to "
        "bunpaginate.UsingColumn/UsingOffset/Iterate/Extract/EncodeCursor/UnmarshalCursor, query.ParseJSON and "
        "ledgerstore.PaginatedQueryOptions by the differential only",
        "harness/paginate.go: evaluating fake database/sql driver under bun (one statement shape), fake backend.Ledger behind the real v1/v2 routers",
        "Go encoding/json, encoding/base64, math/big, time.Format/Parse (JSON text <-> JSON value, instants <-> RFC 3339 text)",
    ]
    ctx.l1()
    if not (ctx.ensure_driver() and ctx.ensure_harness()):
        return
    n = 400 if ctx.quick else 6000
    r = pipeline(ctx, "paginate", n)
    if r is None:
        return
    inputs, impl, model = r
    by_kind = {}
    for inp in inputs:
        by_kind.setdefault(inp["kind"], []).append(inp)
    streams = {"colwalk": "column:walks(pages+cursors+previous)", "offwalk": "offset:walks(pages+cursors+previous)",
               "colstep": "column:single-page(any state)", "offstep": "offset:single-page(any state)",
               "cursor": "cursor:encode+decode(real endpoint queries)", "token": "cursor:decode(forged content)",
               "http": "http:list endpoints end to end"}
    for k, name in streams.items():
        compare(ctx, name, by_kind.get(k, []), impl, model, proj_impl=proj_impl, proj_model=proj_model)

    seen, nontrivial = set(), 0
    dist = {"kind": {}, "collection_size": {}, "page_size_vs_size": {}, "order": {}, "filter_in_cursor": {}, "cursor_filter_form": {},
            "token_outcome": {}, "endpoint": {}, "step_outcome": {}, "pages_per_walk": {}}
    positions = resumed = 0

    def bump(d, k):
        dist[d][str(k)] = dist[d].get(str(k), 0) + 1

    for inp in inputs:
        out = impl.get(inp["id"])
        if out is None:
            continue
        for sig, what in oracle(inp, out):
            sig = dict(sig, property="C17")
            ctx.violation(sig, what, {"area": "paginate", "input": {k: v for k, v in inp.items() if k != "corpus"}, "observed": out})
        kind = inp["kind"]
        bump("kind", kind)
        h = shash({k: v for k, v in inp.items() if k not in ("id", "corpus")})
        nt = False
        if kind in ("colwalk", "offwalk"):
            size, ps = len(inp["ids"]), inp["ps"]
            bump("collection_size", size)
            bump("order", inp["order"])
            bump("page_size_vs_size", "1" if ps == 1 else "<n" if ps < size else "=n" if ps == size else "=n+1" if ps == size + 1 else ">n+1")
            bump("filter_in_cursor", bool(inp.get("body")))
            np_ = len(out.get("pages", []))
            bump("pages_per_walk", "1" if np_ <= 1 else "2-5" if np_ <= 5 else "6-20" if np_ <= 20 else ">20")
            positions += np_ + len(out.get("prevs", [])) + len(out.get("backwalk", []))
            resumed += sum(len((e.get("resume") or {}).get("pages", [])) for e in out.get("prevs", []))
            nt = np_ >= 2
        elif kind in ("colstep", "offstep"):
            bump("step_outcome", "panic" if "panic" in out else out.get("res"))
            nt = True
        elif kind == "cursor":
            f = inp.get("filter") or {}
            bump("cursor_filter_form", "none" if not f else "v1-constructors" if "v1" in f else
                 ("v2-body-refused" if out.get("parse") != "ok" else "v2-body"))
            nt = bool(f) and out.get("parse") == "ok"
        elif kind == "token":
            bump("token_outcome", "panic" if "panic" in out else "accepted" if out.get("accepted") else "refused")
            nt = True
        elif kind == "http":
            bump("endpoint", inp["endpoint"])
            positions += len(out.get("steps", [])) + len(out.get("prevs", []))
            resumed += sum(len(e.get("resume") or []) for e in out.get("prevs", []))
            nt = len(out.get("steps", [])) >= 2
        if nt and h not in seen:
            nontrivial += 1
        seen.add(h)
    ctx.cov["evaluations"] = len(inputs)
    ctx.cov["distinct_nontrivial"] = nontrivial
    ctx.cov["positions_visited"] = positions
    ctx.cov["pages_of_walks_resumed_after_previous"] = resumed
    ctx.cov["rule"] = ("grid: every collection size 0..40 (ids with gaps, stored unordered) x page sizes {1,2,n-1,n,n+1,100} x both orders x "
                       "{UsingColumn,UsingOffset}, each walk visiting every position (next, previous, next-of-previous, the walk resumed with Iterate from every page reached through previous, the way back); plus seeded "
                       "random walks (negative / >2^64 ids, a caller WHERE, a filter and a point in time inside the cursor), single evaluations of "
                       "arbitrary query states (incl. page size 0 and states no walk reaches), cursor round trips of the three endpoint query types "
                       "with v2 filter bodies and v1 constructor trees, forged token contents, and the v1/v2 list endpoints over HTTP; "
                       "non-trivial = distinct case that is a walk of >= 2 pages, a single evaluation, a round trip that carries a filter, or a forged token")
    ctx.cov["input_distribution"] = dist
    ctx.cov["samples"] = [{"input": i, "impl": impl.get(i["id"])} for i in
                          [x for x in inputs if x["kind"] == "cursor" and x.get("filter")][:2] + [x for x in inputs if x["kind"] == "colwalk" and len(x["ids"]) == 3][:1]]
    ctx.assumptions += [
        "the pagination column is unique in the table and the table does not change during a walk (theorem hypotheses: ids pairwise distinct, listed in ascending order)",
        "page size >= 1 (with page size 0 UsingColumn answers an empty page with hasMore=true and a `next` that does not advance; modelled, outside the property)",
        "a cursor token is modelled as the JSON value it contains; JSON text, base64 and time formatting are Go's and trusted to round-trip",
        "numbers in the model fit uint64 where the Go type is uint64 (page size, offset)",
        "filter values are JSON values; a float64 keeps its value through Go's JSON (integers beyond 2^53 in a filter body are already rounded by ParseJSON before any cursor exists)",
        "the SQL around the pagination clauses in ledgerstore (joins, PIT, filters to SQL) is not executed: the fake database holds one table with columns id, grp",
    ]
