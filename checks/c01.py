"""C01 — script execution never overdraws an account."""
from checks.numlib import *

META = {
    "text": "Lean theorem no_overdraw over Model.Numscript.Spec.run (all constructs: ordered/capped/portioned sources and destinations, kept, "
            "overdrafts, world/unbounded fallbacks, both save forms, any number of statements): walking the postings of an accepted run in order with the "
            "running real balance, every posting whose source is not world and whose overdraft the script bounds leaves that account at or above "
            "-(largest overdraft the text grants it) — grants = max over the account's source occurrences, none for @world / unbounded. Proved through a "
            "frame invariant (real = tracked + saved + in flight; tracked+saved >= -grant unless nothing is in flight) carried through "
            "evalSource/takeFromSource/evalDest/evalSend/evalStmts (withdrawAll_keeps, withdrawAlways_keeps + fallback_only_unbounded, repay_keeps, emit_floor, "
            "source_keeps, dest_keeps, send_keeps, stmt_keeps), plus short_sources_reject (bounded sources that cannot cover a send => the run is "
            "insufficient_funds, nothing emitted). Spec is tied to compiler+VM by a seeded end-to-end differential; an independent floor oracle replays "
            "every accepted posting list, all postings in order with unbounded integers, against the balances it ran on, and holds each posting to the "
            "overdraft granted by the SEND it belongs to (read off the output: a send moves its asset from its sources to its destinations, statements post "
            "in order) — an unbounded or larger overdraft in another statement does not license it (stronger than no_overdraw's max over the script: an "
            "oracle fact). The generator adds multi-statement shapes aimed at the tracked balances: debts crossing -2^63 under an unbounded overdraft followed "
            "by a bounded send from the same account; one account holding two non-adjacent pieces of a funding that is partly repaid, followed by a send it "
            "cannot afford (all cases of a run share one process; a violation that the case alone does not "
            "show is reported with the earlier case of the process that makes it show).",
    "note": "Trusted: Lean kernel; Spec as the reading of Numscript; harness pretty-printer (text<->AST); math/big as Int. The theorem is about Spec; its lift to "
            "the bytecode VM rests on the differential (until C08's compile_correct). An account named world reached through a variable is outside the "
            "floor, like the literal (the property excludes world).",
    "technique": "Lean 4 proof (invariant over the Spec interpreter) + differential correspondence Spec vs compiler+VM + floor-replay oracle",
    "design_ref": "5 (C01), appendix A",
}


def cause(inp):
    f = features(inp)
    for k in ("saveAll", "saveMon", "od-upto", "od-unbounded", "src-allot", "src-max", "src-inorder"):
        if k in f:
            return k
    return "plain"


def run(ctx):
    ctx.cov["trusted_base"] = TRUSTED
    ctx.l1()
    r = run_numscript(ctx, 2500 if ctx.quick else 60000)
    if r is None:
        return
    inputs, impl, model = r
    compare(ctx, "numscript:spec-vs-vm", inputs, impl, model, proj_impl=lambda i, o: strip(o))
    seen, nontrivial = set(), 0
    rp = Replays(ctx, inputs)   # a replay is the case alone when that shows the violation, else (earlier case of the process, case)
    flst = collections.Counter()
    for inp in inputs:
        out = impl.get(inp["id"], {})
        for cls, what in floor_violations(inp, out, flst):
            rp.violation({"property": "C01", "class": cls, "construct": cause(inp)}, what, inp, out,
                         lambda o, inp=inp, cls=cls: any(c == cls for c, _ in floor_violations(inp, o)))
        g, _ = grants(inp)
        h = shash(inp["text"] + canon(inp["bal"]))
        if h not in seen and any(v is not None for v in g.values()) and ("postings" in out and out["postings"] or out.get("err") == "insufficient_funds"):
            nontrivial += 1
        seen.add(h)
    ctx.cov["replay_isolation"] = dict(rp.stats)
    ctx.cov["floor_oracle"] = dict(flst)
    ctx.cov["focused_shapes"] = focus_stats(inputs, impl)
    ctx.cov["shapes"] = dict(collections.Counter(i.get("shape") or "general" for i in inputs))
    ctx.cov["evaluations"] = len(inputs)
    ctx.cov["distinct_nontrivial"] = nontrivial
    ctx.cov["rule"] = ("type-directed random programs (variables of all six types incl. meta/balance origins, nested ordered/capped/portioned sources "
                       "and destinations, overdrafts, save, metadata) with balance tables derived from the amounts in the program; non-trivial = distinct "
                       "(text, balances) with at least one bounded non-world source and (a posting was emitted or insufficient_funds was returned)")
    ctx.cov["samples"] = [{"text": i["text"], "bal": i["bal"][:6], "impl": impl.get(i["id"])} for i in inputs[:2]]
    ctx.cov["input_distribution"] = distribution(inputs, impl)
