"""C01 — script execution never overdraws an account."""
from checks.numlib import *

META = {
    "text": "Lean theorems about the balance primitives of Model.Numscript.Spec (withdrawAll bounded by balance+overdraft, frame, repay) — the full "
            "no_overdraw over Spec.run is being built on them; Spec is tied to compiler+VM by a seeded end-to-end differential; an independent floor "
            "oracle replays every accepted posting list against the balances it ran on.",
    "note": "Trusted: Lean kernel; Spec as the reading of Numscript; harness pretty-printer (text<->AST); math/big as Int. PARTIAL at the theorem level until no_overdraw is proved (see evidence.coverage.partial).",
    "technique": "Lean 4 proof (invariant over the Spec interpreter) + differential correspondence Spec vs compiler+VM + floor-replay oracle",
    "design_ref": "5 (C01), appendix A",
}


def cause(inp):
    f = features(inp)
    for k in ("saveAll", "saveMon", "od-upto", "od-unbounded", "src-allot", "src-max", "src-inorder"):
        if k in f:
            return k
    return "plain"


def run(ctx):
    ctx.cov["trusted_base"] = TRUSTED
    ctx.cov["partial"] = "theorem level covers the balance primitives; the end-to-end floor theorem over Spec.run is not finished"
    ctx.l1()
    r = run_numscript(ctx, 1500 if ctx.quick else 60000)
    if r is None:
        return
    inputs, impl, model = r
    compare(ctx, "numscript:spec-vs-vm", inputs, impl, model, proj_impl=lambda i, o: strip(o))
    seen, nontrivial = set(), 0
    for inp in inputs:
        out = impl.get(inp["id"], {})
        for cls, what in floor_violations(inp, out):
            ctx.violation({"property": "C01", "class": cls, "construct": cause(inp)}, what,
                          {"area": "numscript", "input": inp, "observed": out})
        g, _ = grants(inp)
        h = shash(inp["text"] + canon(inp["bal"]))
        if h not in seen and any(v is not None for v in g.values()) and ("postings" in out and out["postings"] or out.get("err") == "insufficient_funds"):
            nontrivial += 1
        seen.add(h)
    ctx.cov["evaluations"] = len(inputs)
    ctx.cov["distinct_nontrivial"] = nontrivial
    ctx.cov["rule"] = ("type-directed random programs (variables of all six types incl. meta/balance origins, nested ordered/capped/portioned sources "
                       "and destinations, overdrafts, save, metadata) with balance tables derived from the amounts in the program; non-trivial = distinct "
                       "(text, balances) with at least one bounded non-world source and (a posting was emitted or insufficient_funds was returned)")
    ctx.cov["samples"] = [{"text": i["text"], "bal": i["bal"][:6], "impl": impl.get(i["id"])} for i in inputs[:2]]
    ctx.cov["input_distribution"] = distribution(inputs, impl)
