"""Front end of Numscript (C12, C08): the ANTLR lexer+parser behind compiler.CompileFull vs the Lean model
`Model/Numscript/Syntax.lean` (lex, parse, runBytes) on script TEXTS.

Area "nstext" (harness/nstext.go, lean/Driver/Syntax.lean), three streams of equal size:
  gen   every program of the numscript generator, pretty-printed (+ the generator's AST)
  mut   token-level mutations of such programs (drop/dup/swap/replace/insert a token, broken literals, NEWLINEs stripped or added, blank lines,
        comments incl. nested and unclosed ones, CRLF, spacing inside 'allowing overdraft up to', glued tokens, foreign characters …) and
        grammar-directed texts (kind 'grammar': valid by construction rule by rule of NumScript.g4, typed only by chance), plain or mutated
  bytes the byte-level stream of area nsbytes
Correspondence streams (ctx.l2_broken on disagreement):
  nstext:verdict  lexer error yes/no and syntax accepted yes/no
  nstext:tokens   the (type, text) list of the tokens that reach the parser      [C12 only]
  nstext:ast      parsed AST == the generator's AST, stream gen                   [C12 only]
  nstext:result   Spec.runBytes outcome == outcome of the real pipeline (a recovered panic is an outcome)
Oracles on the Go side alone: the front end panicked / hung on a text (C12); a text the front end rejected was
compiled or run (C08).

One entry point: run_syntax(ctx).  It is called right after ctx.l1() and returns True when the check was started
with --replay of a front-end case (the caller then has nothing else to do)."""
import binascii
import collections
import json
import re

from vlib.common import compare, pipeline, shash

AREA = "nstext"
N_QUICK, N_THOROUGH = 1500, 25000          # texts PER STREAM


def _strip(o):
    return {k: v for k, v in o.items() if k not in ("stage", "unstable", "rebind", "remembers", "lockR", "lockW")}


def _text(inp):
    try:
        return binascii.unhexlify(inp["hex"]).decode("utf-8", "replace")
    except Exception:
        return "?"


def _crashed(o):
    return "panic" in o or bool(o.get("hang")) or "bad_input" in o


def _panic_kind(msg):
    return re.sub(r"0x[0-9a-f]+|\d+", "N", msg or "")[:60]


def _replay_area(ctx):
    if not getattr(ctx, "replay_file", None):
        return None
    try:
        return json.load(open(ctx.replay_file)).get("replay", {}).get("area")
    except Exception:
        return None


def run_syntax(ctx, n=None):
    prop = ctx.prop
    ra = _replay_area(ctx)
    if ctx.replay_file and ra != AREA:
        return False                       # a replay of another area: not ours, the caller handles it
    if not (ctx.ensure_driver() and ctx.ensure_harness()):     # never run a stale binary; both builds are incremental
        return bool(ctx.replay_file)
    if n is None:
        n = N_QUICK if ctx.quick else N_THOROUGH
    r = pipeline(ctx, AREA, n)
    if r is None:
        return bool(ctx.replay_file)
    inputs, impl, model = r
    for i in inputs:
        i.setdefault("stream", "corpus")

    # ---------------- L2: correspondence
    def verdict_impl(i, o):
        return {"crash": True} if _crashed(o) else {"lexerr": o.get("lexerr"), "syntax": o.get("syntax")}

    def verdict_model(i, o):
        v = {"lexerr": o.get("lexerr"), "syntax": o.get("syntax")}
        if o.get("expected") == "fuel":       # the model's parser ran out of its recursion budget: never legitimate
            v["fuel_exhausted"] = True
        return v
    compare(ctx, "nstext:verdict", inputs, impl, model, proj_impl=verdict_impl, proj_model=verdict_model)

    def result_impl(i, o):
        if _crashed(o):
            return {"crash": True}
        res = o.get("result", {})
        return {"panic": True} if "panic" in res else _strip(res)
    compare(ctx, "nstext:result", inputs, impl, model, proj_impl=result_impl, proj_model=lambda i, o: _strip(o.get("result", {})))

    if prop == "C12":
        lexed = [i for i in inputs if not _crashed(impl.get(i["id"], {})) and not impl.get(i["id"], {}).get("lexerr")]
        compare(ctx, "nstext:tokens", lexed, impl, model, proj_impl=lambda i, o: o.get("toks"), proj_model=lambda i, o: o.get("toks"))
        # a generated program the real parser accepts must parse, in the model, to the tree the generator had in mind
        with_ast = [i for i in inputs if i.get("ast") is not None and impl.get(i["id"], {}).get("syntax")]
        compare(ctx, "nstext:ast", with_ast, impl, model,
                proj_impl=lambda i, o: {"ast_eq": True},
                proj_model=lambda i, o: {"ast_eq": True} if o.get("ast_eq") else
                {"ast_eq": o.get("ast_eq"), "parsed": o.get("ast"), "generator": o.get("ast_generator")})

    # ---------------- L3: oracles on the implementation's outputs alone
    for i in inputs:
        o = impl.get(i["id"], {})
        replay = {"area": AREA, "input": i, "text": _text(i), "observed": o}
        if prop == "C12":
            if "panic" in o or o.get("hang"):
                kind = "hang" if o.get("hang") else "panic"
                ctx.violation({"property": "C12", "class": "parser-" + kind, "message": _panic_kind(o.get("panic", ""))},
                              "the compiler front end %s on a script text" % ("hung" if kind == "hang" else "panicked: " + str(o.get("panic"))[:200]), replay)
            res = o.get("result", {}) if isinstance(o.get("result"), dict) else {}
            if "panic" in res:
                ctx.violation({"property": "C12", "class": "panic", "message": _panic_kind(res["panic"])},
                              "the engine panicked: %s" % res["panic"], replay)
            if "unstable" in res:
                ctx.violation({"property": "C12", "class": "leaves-state-behind"}, "second execution of the same compiled program differs", replay)
        if prop == "C08" and not _crashed(o):
            res = o.get("result", {})
            if not o.get("syntax") and (o.get("compiled") or res.get("err") != "compile_error"):
                ctx.violation({"property": "C08", "class": "rejected-text-run"},
                              "a text the lexer/parser reported errors for was compiled or run", replay)
            if "unstable" in res:
                ctx.violation({"property": "C08", "class": "second-run-differs"}, "running the same compiled program twice gave different outcomes", replay)

    # ---------------- coverage
    per = collections.OrderedDict()
    kinds = collections.Counter()
    kinds_acc = collections.Counter()
    outcomes = collections.Counter()
    distinct = set()
    for i in inputs:
        o = impl.get(i["id"], {})
        s = per.setdefault(i["stream"], collections.Counter())
        s["texts"] += 1
        if _crashed(o):
            s["crashed"] += 1
            continue
        if o.get("lexerr"):
            s["lexer_error"] += 1
        elif not o.get("syntax"):
            s["parser_error"] += 1
        else:
            s["accepted"] += 1
            if o.get("compiled"):
                s["compiled"] += 1
            res = o.get("result", {})
            outcomes[res.get("err") or ("panic" if "panic" in res else "ok")] += 1
            if i["stream"] != "gen":
                distinct.add(shash(i["hex"]))
        for k in i.get("kinds") or []:
            kinds[k] += 1
            if o.get("syntax"):
                kinds_acc[k] += 1
    cov = {
        "texts_per_stream": {k: dict(v) for k, v in per.items()},
        "accepted_share": {k: round(v["accepted"] / max(1, v["texts"]), 3) for k, v in per.items()},
        "mutation_kinds": {k: {"texts": kinds[k], "accepted": kinds_acc[k]} for k in sorted(kinds)},
        "outcomes_of_accepted_texts": dict(outcomes),
        "distinct_accepted_non_generator_texts": len(distinct),
    }
    ctx.cov["front_end"] = cov
    total = sum(v["texts"] for v in per.values())

    tb = [t for t in ctx.cov.get("trusted_base", []) if "ANTLR parser is not modelled" not in t]
    tb.append("text -> AST: Model.Numscript.Syntax (lex, parse) is my model of the ANTLR front end behind compiler.CompileFull; it is tied to the "
              "generated lexer/parser by the nstext differential (tokens, accept/reject, AST, result); that the real lexer/parser terminate and do "
              "not panic on texts the differential did not sample is observed (watchdog), not proved")
    ctx.cov["trusted_base"] = tb

    # the caller sets evaluations / distinct_nontrivial / rule at its very end: add ours when the verdict is made
    orig_finish = ctx.finish

    def finish():
        ctx.cov["evaluations"] = ctx.cov.get("evaluations", 0) + total
        ctx.cov["distinct_nontrivial"] = ctx.cov.get("distinct_nontrivial", 0) + len(distinct)
        ctx.cov["rule"] = (ctx.cov.get("rule", "") + "; front end: %d texts per stream (generated programs, token-level mutations, byte strings) through "
                           "the real lexer+parser+pipeline and the Lean front end; non-trivial = distinct mutated/byte text the real parser accepted" % n)
        if ctx.cov.get("partial") and prop == "C12":
            ctx.cov["partial"] = ("lexer+parser modelled (Syntax.lean) and differentially tied; bytecode VM not modelled: crash-freedom of the real "
                                  "code is observed on samples, proved for Spec.runBytes")
        return orig_finish()
    ctx.finish = finish
    return bool(ctx.replay_file)
