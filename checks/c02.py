"""C02 — concurrent transactions cannot spend the same funds twice."""
import collections
import json
from checks.enginelib import *
from checks import numlib

META = {
    "text": 'Lean: component model Floor (locks held from before the balance read until the log is persisted; the store answers balance reads from the persisted log; every committed posting list touches only accounts in the committer\'s lock sets, sources write-locked and read, and respects the C01 floor against the balances read; reads are consumed by a commit and not taken while the request\'s own log is queued). Theorems (Props/C02.lean, over ALL accepted event sequences): inv_reachable (inductive invariant: lock exclusion, producers of queued logs hold covering locks, recorded reads of write-locked accounts equal the replay of durable++pending, floor fact per entry), log_floor / log_floor_durable / log_floor_at (at its log position every entry added during the run respects the floor against the replay of the entries before it), racing_pair_sum_le / racing_pair_not_both (two debits of one bounded account never jointly exceed what the log prefix provides plus the overdraft), locks_span_persistence, producer_holds_locks, lock_exclusion, reads_are_current, commit_respects_floor_now, funding_is_prefix. The clause the component assumes of a commit (lock coverage) is proved of the source-level semantics Spec for EVERY script, variable map and store: posting_sources_write_locked (every posting source but world is in lockWrite, whichever way the script names it: literal, variable, variable read from metadata), posting_accounts_locked / posting_accounts_in_lock_sets (destinations in lockRead), write_locks_are_read_locks, world_not_locked, balances_read_are_write_locked (every balance read belongs to a write-locked account, or to a save target which is read-locked), posting_sources_were_read, and spec_commit_passes_lock_guards / spec_commit_accepted (a commit of Spec\'s postings by a request holding Spec\'s lock sets passes the guards of Floor.step). Tie: (1) every run of the real Commander under the deterministic scheduler must be accepted by the model (trace validation); (2) the lock sets and postings Spec computes equal what the real compiler + ResolveResources + VM return, input by input (stream numscript:locksets; generated programs include the aliasing shapes: an account in source position that is also the value of a variable which is no source). Oracles, on the implementation\'s outputs alone: fold of the persisted log (no debit beyond what the log provides); every posting source in the reported write set and every posting account in the reported lock sets.',
    "note": 'Trusted: Lean kernel; the event vocabulary and its extraction from the harness trace; scheduler-native locker implementing the C15 contract; Spec as the reading of Numscript (tied to compiler+VM by the differential, lock sets included); exec_floor per commit is checked on the trace (and proved for Spec under C01), not derived from the VM code; that commander.exec locks exactly what ResolveResources returns is seen on the trace (lock events vs committed postings), not proved from source.',
    "technique": 'Lean 4 proof (inductive invariant of the Floor component; lock coverage by induction over the Spec interpreter) + trace validation of the real Commander under a deterministic scheduler + differential of lock sets Spec vs ResolveResources + log-replay and lock-coverage oracles + regenerated commander skeleton (extract/commander -> Generated/Commander.lean on every run): well-formedness of every control path by decide, refinement of this component by the interpreted skeleton under every schedule, observed runs re-executed in the skeleton system',
    "design_ref": '5 (C02), 3.4, appendix A, appendix B',
}

# ---------------------------------------------------------------- lock sets of scripts (area "numscript")


def dest_exprs(d):
    if d["k"] == "acct":
        yield d["e"]
    elif d["k"] == "inorder":
        for c in d["caps"]:
            if c["kd"]["k"] == "to":
                yield from dest_exprs(c["kd"]["d"])
        if d["rest"]["k"] == "to":
            yield from dest_exprs(d["rest"]["d"])
    else:
        for it in d["items"]:
            if it["kd"]["k"] == "to":
                yield from dest_exprs(it["kd"]["d"])


def key_of(e):
    return ("@" if e["k"] == "acct" else "$") + str(e.get("v"))


def designations(inp):
    """(sources, others): account-designating expressions of the program, as (key, role) lists;
    key = '@literal' | '$variable'.  Independent of the Lean model and of the harness' own tag."""
    src, oth = [], []
    for st in inp["ast"]["stmts"]:
        k = st["k"]
        if k == "send":
            for s in numlib.send_sources(st):
                if s["e"]["k"] in ("acct", "var"):
                    src.append((key_of(s["e"]), "source"))
            for e in dest_exprs(st["dst"]):
                if e["k"] in ("acct", "var"):
                    oth.append((key_of(e), "dest"))
        elif k in ("saveMon", "saveAll"):
            if st["acc"]["k"] in ("acct", "var"):
                oth.append((key_of(st["acc"]), "save"))
        elif k == "setAccountMeta":
            if st["acc"]["k"] in ("acct", "var"):
                oth.append((key_of(st["acc"]), "setmeta"))
    for d in inp["ast"].get("vars") or []:
        o = d.get("origin")
        if o and o["acc"]["k"] in ("acct", "var"):
            oth.append((key_of(o["acc"]), "origin"))
        if d["ty"] == "account":
            oth.append(("$" + d["name"], "declared"))
    return src, oth


def alias_shapes(inp):
    """which aliasing shapes the input contains, evaluated with the values the variables really take:
    aliased        some non-world account in source position is ALSO designated by another expression (another name)
    lower-nonsource … by an account variable that is nowhere a source, while the source is a literal or a variable declared
                   later — the variable's resource index is the lower one (variables precede literals)
    +plain/+meta   origin of that variable;  +dest/+save/+setmeta/+declared-only  what the variable is used for"""
    env, _, acct_of, _ = numlib.resolve_env(inp)
    decl_order = [d["name"] for d in inp["ast"].get("vars") or []]
    origin_of = {d["name"]: ("meta" if (d.get("origin") or {}).get("k") == "meta" else "plain") for d in inp["ast"].get("vars") or []}

    def val(key):
        if key[0] == "@":
            return key[1:]
        v = env.get(key[1:])
        return v[1] if v and v[0] == "acct" else None
    src, oth = designations(inp)
    src_keys = {k for k, _ in src}
    shapes = set()
    for ks in src_keys:
        a = val(ks)
        if a is None or a == "world":
            continue
        for ko, role in src + oth:
            if ko == ks or val(ko) != a:
                continue
            shapes.add("aliased")
            if ko[0] == "$" and ko not in src_keys:
                lower = ks[0] == "@" or (ks[1:] in decl_order and ko[1:] in decl_order and decl_order.index(ko[1:]) < decl_order.index(ks[1:]))
                if lower:
                    shapes.add("lower-nonsource")
                    shapes.add("lower-nonsource+" + origin_of.get(ko[1:], "?"))
                    shapes.add("lower-nonsource+" + ("declared-only" if role == "declared" and not any(k2 == ko and r2 != "declared" for k2, r2 in oth) else role))
            elif ko[0] == "$" or ks[0] == "$":
                shapes.add("source-by-variable+other-name")
    shapes.discard("lower-nonsource+declared")
    return shapes


def proj_locks(o):
    if o is None:
        return None
    if "panic" in o:
        return {"panic": True}
    if "postings" in o:
        return {"lockR": o.get("lockR"), "lockW": o.get("lockW"), "postings": o["postings"]}
    return {"err": o.get("err")}


def lock_oracle(out):
    """on the implementation's output alone: the reported lock sets cover the postings"""
    v = []
    if "postings" not in out:
        return v
    w, r = set(out.get("lockW") or []), set(out.get("lockR") or [])
    for n, (src, dst, amt, asset) in enumerate(out["postings"]):
        if src != "world" and src not in w:
            v.append(("source-not-write-locked", "posting %d takes %s %s from %s, which is not in the write set %s (read set %s)" % (
                n, amt, asset, src, sorted(w), sorted(r))))
        for x in (src, dst):
            if x != "world" and x not in w and x not in r:
                v.append(("account-not-locked", "posting %d touches %s, which is in neither lock set (write %s, read %s)" % (n, x, sorted(w), sorted(r))))
    return v


def locksets(ctx, n):
    """L2: lock sets + postings of Spec vs the real compiler / ResolveResources / VM; L3: coverage oracle on the real output"""
    r = numlib.run_numscript(ctx, n)
    if r is None:
        return 0
    inputs, impl, model = r
    compare(ctx, "numscript:locksets", inputs, impl, model, proj_impl=lambda i, o: proj_locks(o), proj_model=lambda i, o: proj_locks(o))
    shapes, tags, ok_with = collections.Counter(), collections.Counter(), collections.Counter()
    seen, nontrivial = set(), 0
    for inp in inputs:
        out = impl.get(inp["id"], {})
        for cls, what in lock_oracle(out):
            ctx.violation({"property": "C02", "class": cls}, what, {"area": "numscript", "input": inp, "observed": out})
        try:
            sh = alias_shapes(inp)
        except Exception:
            sh = set()
        for s in sh:
            shapes[s] += 1
            if out.get("postings"):
                ok_with[s] += 1
        if inp.get("alias"):
            tags[inp["alias"].split("+")[1].rsplit("-", 1)[0]] += 1
        h = shash(inp["text"] + canon(inp.get("vars")) + canon(inp.get("ameta")))
        if h not in seen and any(p[0] != "world" for p in out.get("postings") or []):
            nontrivial += 1
        seen.add(h)
    ctx.cov["locksets"] = {
        "evaluations": len(inputs),
        "distinct_with_a_posting_from_a_non_world_source": nontrivial,
        "aliasing": {"inputs": len(inputs), "shapes": dict(shapes), "of_which_accepted_with_postings": dict(ok_with),
                     "generator_variants_by_use": dict(tags),
                     "rate_aliased": round(shapes["aliased"] / max(1, len(inputs)), 4),
                     "rate_lower_nonsource": round(shapes["lower-nonsource"] / max(1, len(inputs)), 4)},
        "input_distribution": numlib.distribution(inputs, impl),
        "rule": "the programs of the numscript generator (type-directed; + one in eight followed by a variant in which an account in source position "
                "is also the value of a fresh account variable — plain or meta() origin, declared first or last — used as a destination, a save / "
                "set_account_meta target, or not at all); shapes are measured on the inputs with the values the variables really take "
                "(aliased = a non-world source account is designated by a second name; lower-nonsource = … by an account variable that is no source and "
                "precedes the source's own resource)",
        "sample": next(({"text": i["text"], "vars": i.get("vars"), "impl": proj_locks(impl.get(i["id"]))} for i in inputs
                        if i.get("alias") and (impl.get(i["id"]) or {}).get("postings")), None),
    }
    return len(inputs)


def run(ctx):
    area = None
    if ctx.replay_file:
        area = (json.load(open(ctx.replay_file)).get("replay") or {}).get("area")
    if area == "numscript":     # a replay of the lock-set stream: the script alone
        ctx.cov["trusted_base"] = TRUSTED + numlib.TRUSTED[1:]
        ctx.l1()
        ctx.cov["evaluations"] = locksets(ctx, 1)
        ctx.cov["rule"] = "replay of one script"
        return
    if area == "lock":          # a replay of the locker-contract stream
        from checks import c15
        ctx.cov["trusted_base"] = TRUSTED
        ctx.l1()
        ctx.cov["evaluations"] = c15.contract_for(ctx, "C02", 1)
        ctx.cov["rule"] = "replay of one op sequence through the real DefaultLocker"
        return
    run_check(ctx, 'C02', ["floor"], lambda scn, run: concurrent(scn, run) and sum(1 for q in scn["requests"] if q["kind"] in ("create", "revert") and not q.get("dry")) >= 2, 'two requests that move funds overlapped in time')
    if area == "engine":
        return
    ctx.cov["trusted_base"] = TRUSTED + numlib.TRUSTED[1:]
    ctx.cov["engine_evaluations"] = ctx.cov.get("evaluations", 0)
    n = locksets(ctx, 1500 if ctx.quick else 40000)
    ctx.cov["evaluations"] = ctx.cov["engine_evaluations"] + n
    ctx.cov["rule"] += ("; plus the lock-set stream: " + ctx.cov.get("locksets", {}).get("rule", ""))
    # the real account locker is held to the contract the engine runs assume of it (exclusion, wake-ups, clean cancellation)
    from checks import c15
    n2 = c15.contract_for(ctx, "C02", 250 if ctx.quick else 20000)
    ctx.cov["evaluations"] += n2
    ctx.cov["rule"] += "; plus the locker-contract stream: " + ctx.cov.get("locker_contract", {}).get("rule", "")
    # how many engine requests name the debited account twice
    try:
        reqs = [q for s in read_jsonl(ctx.path("engine.in.jsonl")) for q in s["requests"] if q.get("kind") == "create"]
        ctx.cov["engine_source_naming"] = dict(collections.Counter(q.get("via") for q in reqs))
    except Exception:
        pass
