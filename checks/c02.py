"""C02 — concurrent transactions cannot spend the same funds twice."""
from checks.enginelib import *

META = {
    "text": 'Lean: component model Floor (locks held from before the balance read until the log is persisted; every committed posting list respects the C01 floor against the balances read; theorem log_floor: at its log position every entry respects the floor against the replay of the entries before it). Tie: every run of the real Commander under the deterministic scheduler must be accepted by the model (trace validation); oracle: fold of the persisted log.',
    "note": 'Trusted: Lean kernel; the event vocabulary and its extraction from the harness trace; scheduler-native locker implementing the C15 contract; exec_floor per commit is checked on the trace (and proved for Spec under C01), not derived from the VM code.',
    "technique": 'Lean 4 proof (inductive invariant of the Floor component) + trace validation of the real Commander under a deterministic scheduler + log-replay oracle',
    "design_ref": '5 (C02), 3.4, appendix B',
}


def run(ctx):
    run_check(ctx, 'C02', ["floor"], lambda scn, run: concurrent(scn, run) and sum(1 for q in scn["requests"] if q["kind"] in ("create", "revert") and not q.get("dry")) >= 2, 'two requests that move funds overlapped in time')
