"""C02 — concurrent transactions cannot spend the same funds twice."""
from checks.enginelib import *

META = {
    "text": 'Lean: component model Floor (locks held from before the balance read until the log is persisted; the store answers balance reads from the persisted log; every committed posting list touches only accounts in the committer\'s lock sets, sources write-locked and read, and respects the C01 floor against the balances read; reads are consumed by a commit and not taken while the request\'s own log is queued). Theorems (Props/C02.lean, over ALL accepted event sequences): inv_reachable (inductive invariant: lock exclusion, producers of queued logs hold covering locks, recorded reads of write-locked accounts equal the replay of durable++pending, floor fact per entry), log_floor / log_floor_durable / log_floor_at (at its log position every entry added during the run respects the floor against the replay of the entries before it), racing_pair_sum_le / racing_pair_not_both (two debits of one bounded account never jointly exceed what the log prefix provides plus the overdraft), locks_span_persistence, producer_holds_locks, lock_exclusion, reads_are_current, commit_respects_floor_now, funding_is_prefix. Tie: every run of the real Commander under the deterministic scheduler must be accepted by the model (trace validation); oracle: fold of the persisted log.',
    "note": 'Trusted: Lean kernel; the event vocabulary and its extraction from the harness trace; scheduler-native locker implementing the C15 contract; exec_floor per commit is checked on the trace (and proved for Spec under C01), not derived from the VM code.',
    "technique": 'Lean 4 proof (inductive invariant of the Floor component) + trace validation of the real Commander under a deterministic scheduler + log-replay oracle',
    "design_ref": '5 (C02), 3.4, appendix B',
}


def run(ctx):
    run_check(ctx, 'C02', ["floor"], lambda scn, run: concurrent(scn, run) and sum(1 for q in scn["requests"] if q["kind"] in ("create", "revert") and not q.get("dry")) >= 2, 'two requests that move funds overlapped in time')
