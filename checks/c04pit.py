"""C04 — what a point-in-time read of `moves` computes: the PAIRING of date column, row order and volumes column.

Every row of `moves` carries two pairs of totals (Props/C04.lean, `projection_running_volumes`, `projection_effective_volumes`,
`pit_read_pairing`):

  post_commit_volumes            totals of the moves of its account and asset that are not after it BY seq (insertion order);
  post_commit_effective_volumes  totals of those that are not after it BY (effective_date, seq).

A read that wants "the figures as of instant t" therefore has exactly two sound ways of picking ONE row per account and asset:

  P1  rows with insertion_date <= t,  the latest BY seq,                    read post_commit_volumes            (balance as of t)
  P2  rows with effective_date <= t,  the latest BY (effective_date, seq),  read post_commit_effective_volumes  (by effective date)

Anything else — the rows cut on one date, the row picked in the other order, or the totals of the other order — is wrong as soon as
insertion order and timestamp order differ (a back-dated or future-dated transaction): `C04.pit_read_pairing` has the witness.

This module reads the pairing off SQL text: the statements captured from the real ledgerstore.Store (area readsql) and the bodies
of the `language sql` functions of 0-init-schema.sql those statements call with the point in time.  It is syntactic and
conservative like checks/c04sql.py, whose tokenizer / grouping / block walker it reuses; a shape it does not know raises
SqlShapeError (reported, never passed silently).

  latest-row read of moves = a SELECT block with base table `moves` in FROM that keeps one row per group:
                             `order by K… limit 1`   or   `distinct on (G…) … order by G…, K…`
  date      = the conjunct `[alias.]<insertion_date|effective_date> <op> <PIT>` or `(<PIT> is null or …same…)` of its WHERE
              (<PIT>: a timestamp literal in captured statements, the parameter `_before` in a function body)
  picked by = K… (column names; every key must be `desc`, otherwise the key is reported as `<col> asc`)
  volumes   = the volumes column named in the block's select list; when the block returns whole rows (`*`), the volumes column
              the rest of the statement / function body reads (both columns there: refused as ambiguous)
"""
import re

from checks import c04sql as S

VOL_COLS = ("post_commit_volumes", "post_commit_effective_volumes")
DATE_COLS = ("insertion_date", "effective_date")
CMP_OPS = ("<=", "<", ">=", ">", "=", "<>", "!=")
FLIP = {"<=": ">=", "<": ">", ">=": "<=", ">": "<", "=": "=", "<>": "<>", "!=": "!="}
TS_RE = re.compile(r"^\d{4}-\d\d-\d\d[T ]\d\d:\d\d:\d\d")

SOUND = [
    {"date_column": "insertion_date", "row_picked_by": ["seq"], "volumes_column": "post_commit_volumes",
     "means": "the totals of the moves inserted by the instant (balance as of that instant)"},
    {"date_column": "effective_date", "row_picked_by": ["effective_date", "seq"], "volumes_column": "post_commit_effective_volumes",
     "means": "the totals of the moves dated at or before the instant (figure by effective date)"},
]
ORDER_OF_VOL = {s["volumes_column"]: s["row_picked_by"] for s in SOUND}
ORDER_OF_DATE = {s["date_column"]: s["row_picked_by"] for s in SOUND}


def flat(items):
    for it in items:
        if it[0] == "group":
            yield ("p", "(")
            yield from flat(it[1])
            yield ("p", ")")
        else:
            yield it


def idents(items):
    return [t[1].lower() for t in flat(items) if t[0] in ("id", "qid")]


def split_commas(items):
    parts, cur = [], []
    for it in items:
        if it == ("p", ","):
            parts.append(cur)
            cur = []
        else:
            cur.append(it)
    if cur or parts:
        parts.append(cur)
    return parts


class Blocks(S.Analysis):
    """the block walker of c04sql.Analysis, recording every SELECT block with its clauses"""

    def __init__(self, ledger_tok, ledger_funcs):
        super().__init__(ledger_tok, ledger_funcs)
        self.blocks = []
        self.claimed = set()

    def select_core(self, items, ctes, outer):
        if not items or not S.is_kw(items[0], "select"):
            raise S.SqlShapeError("set-operation branch is not a SELECT: %r" % (items[:3],))
        idx, order = {}, []
        for i, it in enumerate(items):
            if it[0] == "id" and it[1] in S.CLAUSE_KW and it[1] not in idx and i > 0:
                idx[it[1]] = i
                order.append((i, it[1]))
        order.sort()

        def clause(name):
            if name not in idx:
                return []
            start = idx[name]
            end = min([i for i, _ in order if i > start] + [len(items)])
            return items[start + 1:end]
        sel_end = order[0][0] if order else len(items)
        n_before = len(self.pending)
        super().select_core(items, ctes, outer)
        # nested blocks (derived tables, sub-selects) were walked — and claimed their references — inside the call above
        base = [f for f in self.pending[n_before:] if id(f) not in self.claimed]
        self.claimed.update(id(f) for f in base)
        where_conj = S.conjuncts(clause("where")) if "where" in idx else []
        self.blocks.append({"select": items[1:sel_end], "where": clause("where"), "conj": where_conj, "order": clause("order"),
                            "limit": clause("limit"), "group": clause("group"), "base": base, "items": items})


def is_pit(items, pit_tok):
    items = list(items)
    if len(items) >= 3 and items[1] == ("op", "::"):      # '…'::timestamp
        items = items[:1]
    if len(items) != 1:
        return False
    t = items[0]
    return t == pit_tok or (pit_tok[0] == "str" and t[0] == "str" and bool(TS_RE.match(t[1])))


def date_predicate(conj, alias, n_base, pit_tok):
    """(column, operator) of `[alias.]date_col <op> PIT` (normalised so that the column is on the left), or None"""
    c = S.strip_parens(conj)
    if any(S.is_kw(it, "or") for it in c):
        parts = [S.strip_parens(p) for p in S.split_top(c, "or")]
        guards = [p for p in parts if len(p) == 3 and is_pit(p[:1], pit_tok) and S.is_kw(p[1], "is") and S.is_kw(p[2], "null")]
        rest = [p for p in parts if p not in guards]
        found = [date_predicate(p, alias, n_base, pit_tok) for p in rest]
        if len(guards) == 1 and len(rest) == 1 and found[0]:
            return found[0]
        if any(x in DATE_COLS for x in idents(c)):
            raise S.SqlShapeError("a disjunction over a date column of moves that is not `(PIT is null or col <= PIT)`: %r" % (list(flat(c)),))
        return None
    ops = [k for k, it in enumerate(c) if it[0] == "op" and it[1] in CMP_OPS]
    if len(ops) == 1:
        lhs, rhs, op = c[:ops[0]], c[ops[0] + 1:], c[ops[0]][1]
        for a, b, o in ((lhs, rhs, op), (rhs, lhs, FLIP[op])):
            ca = S.colref(a)
            if ca and ca[1] in DATE_COLS and (ca[0] == alias or (ca[0] is None and n_base == 1)) and is_pit(b, pit_tok):
                return (ca[1], o)
    mentions_pit = any(t == pit_tok or (pit_tok[0] == "str" and t[0] == "str" and TS_RE.match(t[1])) for t in flat(c))
    if mentions_pit and any(x in DATE_COLS for x in idents(c)):
        raise S.SqlShapeError("a condition relating a date column of moves to the point in time in a form not understood: %r" % (list(flat(c)),))
    return None


def order_keys(items):
    """[(column, desc)] of an ORDER BY clause (after `by`)"""
    if not items or not S.is_kw(items[0], "by"):
        raise S.SqlShapeError("ORDER without BY")
    keys = []
    for part in split_commas(items[1:]):
        desc = False
        if part and S.is_kw(part[-1], "desc", "asc"):
            desc = part[-1][1] == "desc"
            part = part[:-1]
        cr = S.colref(part)
        if cr is None:
            raise S.SqlShapeError("ORDER BY key that is not a column: %r" % (list(flat(part)),))
        keys.append((cr[1], desc))
    return keys


def picker(block):
    """the keys that decide WHICH row of a group is kept, or None when the block keeps every row"""
    sel = block["select"]
    if len(sel) >= 3 and S.is_kw(sel[0], "distinct") and S.is_kw(sel[1], "on") and sel[2][0] == "group":
        gcols = []
        for part in split_commas(sel[2][1]):
            cr = S.colref(part)
            if cr is None:
                raise S.SqlShapeError("DISTINCT ON key that is not a column")
            gcols.append(cr[1])
        keys = order_keys(block["order"]) if block["order"] else []
        if [k for k, _ in keys[:len(gcols)]] != gcols:
            raise S.SqlShapeError("DISTINCT ON (%s) whose ORDER BY does not start with these columns" % ", ".join(gcols))
        return "distinct on (%s)" % ", ".join(gcols), keys[len(gcols):]
    if block["limit"] == [("num", "1")]:
        if S.is_kw(sel[0], "distinct") if sel else False:
            raise S.SqlShapeError("DISTINCT with LIMIT 1")
        return "limit 1", (order_keys(block["order"]) if block["order"] else [])
    return None


def analyse_text(sql, pit_tok, ledger_tok, ledger_funcs, fns, site):
    """every latest-row read of moves in one statement / function body, and every call of a schema function with the
    argument bound to its `_before` parameter"""
    toks = S.norm_tokens(sql)
    while toks and toks[-1] == ("p", ";"):
        toks.pop()
    items = S.group(toks)
    if not S.is_query(items):
        raise S.SqlShapeError("not a SELECT/WITH statement")
    b = Blocks(ledger_tok, ledger_funcs)
    b.query(items, set(), [])
    whole_vols = sorted({x for x in idents(items) if x in VOL_COLS})
    reads = []
    for blk in b.blocks:
        for f in blk["base"]:
            if f["table"] != "moves":
                continue
            pk = picker(blk)
            dates = [d for d in (date_predicate(c, f["alias"], f["n_base_in_block"], pit_tok) for c in blk["conj"] + f.get("on_conj", [])) if d]
            sel_ids = idents(blk["select"])
            explicit = sorted({x for x in sel_ids if x in VOL_COLS})
            star = any(t == ("op", "*") for t in flat(blk["select"]))
            if pk is None:
                if dates:
                    raise S.SqlShapeError("%s: moves is cut at the point in time (%s) by a block that keeps more than one row per group — "
                                          "not a shape this analysis knows" % (site, dates))
                continue          # not a latest-row read (an existence test, the moves of one transaction, …)
            how, keys = pk
            vols = explicit if explicit else (whole_vols if star else [])
            if len(vols) > 1:
                raise S.SqlShapeError("%s: a latest-row read of moves whose volumes column cannot be told (both are read)" % site)
            reads.append({"site": site, "alias": f["alias"], "keeps_one_row_by": how,
                          "date": [list(d) for d in dates],
                          "row_picked_by": [k if d else k + " asc" for k, d in keys],
                          "volumes_column": vols[0] if vols else None})
    calls = []

    def scan(its):
        for i, it in enumerate(its):
            if it[0] == "group":
                if i > 0 and its[i - 1][0] == "id" and its[i - 1][1] in fns:
                    calls.append((its[i - 1][1], split_commas(it[1])))
                scan(it[1])
    scan(items)
    out_calls = []
    for name, args in calls:
        params = [p[0] for p in fns[name]["params"]]
        if "_before" not in params:
            continue
        bound = None
        for k, a in enumerate(args):
            if len(a) >= 3 and a[0][0] == "id" and a[1] == ("op", ":="):
                if a[0][1] == "_before":
                    bound = a[2:]
            elif k == params.index("_before"):
                bound = a
        out_calls.append({"function": name, "before_is_pit": bool(bound) and is_pit(bound, pit_tok),
                          "before": "".join(t[1] for t in flat(bound or [])) or None})
    return reads, out_calls


def judge(read, pit_bound):
    """-> (verdict, why); verdict in sound | unsound | no-pit-predicate"""
    order, vol, dates = read["row_picked_by"], read["volumes_column"], read["date"]
    if vol is not None and order != ORDER_OF_VOL[vol]:
        return "unsound", ("%s holds the totals of the moves not after the row by (%s); the row is picked as the latest by (%s)" % (
            vol, ", ".join(ORDER_OF_VOL[vol]), ", ".join(order) or "nothing"))
    if vol is None and order not in ORDER_OF_VOL.values():
        return "unsound", "the latest row by (%s) carries the totals of neither order" % (", ".join(order) or "nothing")
    if not pit_bound:
        return "sound", "no point in time: every row is eligible, order and volumes column agree"
    if not dates:
        return "no-pit-predicate", "moves is read for a request with a point in time, the rows are not cut at it"
    if len(dates) != 1:
        return "unsound", "the rows are cut at the point in time on more than one condition: %s" % dates
    col, op = dates[0]
    if op != "<=":
        return "unsound", "the rows are cut with `%s %s PIT`; the totals as of an instant include the moves AT that instant" % (col, op)
    if order != ORDER_OF_DATE[col]:
        return "unsound", ("the rows are cut on %s, the row kept is the latest by (%s)%s: among the rows %s <= PIT the latest by (%s) carries totals which "
                           "include moves of the other side of the cut whenever insertion order and timestamp order differ" % (
                               col, ", ".join(order), " and %s is read" % vol if vol else "", col, ", ".join(order)))
    return "sound", "P1" if col == "insertion_date" else "P2"


class PitPairing:
    """the obligation over one run: statements are fed one by one, schema functions are analysed once per binding"""

    def __init__(self, fns, ledger_funcs):
        self.fns, self.ledger_funcs = fns, ledger_funcs
        self.fn_cache = {}

    def function(self, name, bound):
        """reads and calls of a `language sql` read function, `_before` being the point in time (bound) or null"""
        key = (name, bound)
        if key not in self.fn_cache:
            f = self.fns[name]
            body = f["body"].strip()
            if f["lang"] != "sql" or not re.match(r"(?is)\s*(select|with)\b", body):
                raise S.SqlShapeError("function %s takes _before and is not a `language sql` read function" % name)
            self.fn_cache[key] = analyse_text(body, ("id", "_before"), ("id", "_ledger"), self.ledger_funcs, self.fns, name)
        return self.fn_cache[key]

    def statement(self, sql, has_pit, ledger):
        """-> list of dict(read…, verdict, why, via=[function chain]) for one captured statement"""
        reads, calls = analyse_text(sql, ("str", "\0no-such-literal") if not has_pit else ("str", "\0pit"), ("str", ledger),
                                    self.ledger_funcs, self.fns, "query")
        out = []
        for r in reads:
            v, why = judge(r, has_pit)
            out.append(dict(r, verdict=v, why=why, via=[], pit_bound=has_pit))
        seen = set()
        work = [(c["function"], has_pit and c["before_is_pit"], [c["function"]]) for c in calls]
        while work:
            name, bound, chain = work.pop()
            if (name, bound) in seen:
                continue
            seen.add((name, bound))
            freads, fcalls = self.function(name, bound)
            for r in freads:
                v, why = judge(r, bound)
                out.append(dict(r, verdict=v, why=why, via=chain, pit_bound=bound))
            for c in fcalls:
                work.append((c["function"], bound and c["before_is_pit"], chain + [c["function"]]))
        return out

    def latent(self, reached):
        """schema functions with a `_before` parameter no captured statement reaches with a point in time: their pairing, for the record"""
        res = {}
        for name, f in sorted(self.fns.items()):
            if "_before" not in [p[0] for p in f["params"]] or (name, True) in reached:
                continue
            try:
                freads, _ = self.function(name, True)
            except S.SqlShapeError as e:
                res[name] = "not analysed: %s" % e
                continue
            for r in freads:
                v, why = judge(r, True)
                if v != "sound":
                    res[name] = "%s: cut on %s, latest by (%s), reads %s — %s" % (v, r["date"], ", ".join(r["row_picked_by"]), r["volumes_column"], why)
        return res
