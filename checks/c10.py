"""C10 — revert is an exact, once-only inverse."""
from checks.enginelib import *
from checks import stresslib

META = {
    "text": 'Lean: Guard instantiated for revert targets: revert_at_most_once, revert_needs_unreverted, reverted_is_final (a persisted revert is seen by every later lookup and no further revert of the target is accepted); posting lists: reverse (model of Postings.Reverse), reverse_shape, reverse_getElem, reverse_involutive, revert_restores (ps ++ reverse ps leaves every balance where it stood), revert_restores_after_history; unforced reverts through the Floor component. Tie: trace validation (guard-revert, floor); differential of Postings.Reverse is covered by the durable-log oracle (reverse shape). Stage 2, the reservation primitive (Referencer.take, no scheduling point inside): area engstress — goroutines released together by a spinning barrier call the real take with one key (exactly one may win) and the real Commander with simultaneous reverts of one transaction (one accepted, one entry); a bounded search, rates and processors in coverage.stress.',
    "note": "Trusted: Lean kernel; event extraction. The reverted flag of the SQL store is C04's business.",
    "technique": 'Lean 4 proof (Guard invariant + list lemmas) + trace validation + revert oracle + regenerated commander skeleton (extract/commander -> Generated/Commander.lean on every run): well-formedness of every control path by decide, refinement of this component by the interpreted skeleton under every schedule, observed runs re-executed in the skeleton system',
    "design_ref": '5 (C10)',
}


def run(ctx):
    area = stresslib.replay_area(ctx)
    if area == stresslib.AREA:       # a replay of the stress stage: the bounded search alone
        ctx.l1()
        stresslib.run_stress(ctx, 'C10')
        return
    run_check(ctx, 'C10', ["guard-revert", "floor"], lambda scn, run: any(q["kind"] == "revert" for q in scn["requests"]), 'the scenario contains a revert')
    if area is not None:
        return
    # stage 2: the reservation primitive (no scheduling point inside) under truly simultaneous goroutines
    stresslib.run_stress(ctx, 'C10')
